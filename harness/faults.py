"""Fault injection into the MCS stage without touching /repo: wrappers at the two functions the real wrappers
guard (`MCSMissingGraphAnalyzer.fit` inside single_mcs's try, `FindMissingGraphs.find_missing_parts_pairs` inside
process_single_pair's try).  Works in-process, i.e. with Balancer(n_jobs=1) (joblib runs n_jobs=1 sequentially in
the parent; the hard-coded n_jobs=4 helpers only convert SMILES)."""
import time


class Faults:
    """search: {(row_id, condition_index): kind}; graph: {row_id: kind}; merge: {row_id: kind} (inside `merge` called by
    `impute_reaction`); kind = "raise" | "raise-empty" (an exception whose str() is empty, e.g. MemoryError()) | "timeout"
    (search and graph only)"""

    def __init__(self, search=None, graph=None, sleep=2.6, merge=None):
        self.search = dict(search or {})
        self.graph = dict(graph or {})
        self.merge = dict(merge or {})
        self._cur_rid = None
        self.sleep = sleep
        self.fired = []
        self._saved = []
        self._calls = {}
        self._graph_ids = []
        self._graph_i = 0

    def __enter__(self):
        import synrbl.mcs_search as ms
        from synrbl.SynMCSImputer.MissingGraph.find_missing_graphs import FindMissingGraphs
        from synrbl.SynMCSImputer.SubStructure.mcs_graph_detector import MCSMissingGraphAnalyzer

        F = self
        orig_fit = MCSMissingGraphAnalyzer.fit

        def fit(reaction_dict, *a, **k):
            rid = reaction_dict.get("id")
            c = F._calls.get(rid, 0)
            F._calls[rid] = c + 1
            kind = F.search.get((rid, c))
            if kind == "raise":
                F.fired.append(("search", rid, c, kind))
                raise RuntimeError("injected search failure")
            if kind == "raise-empty":
                F.fired.append(("search", rid, c, kind))
                raise MemoryError()
            if kind == "timeout":
                F.fired.append(("search", rid, c, kind))
                time.sleep(F.sleep)  # past the 2 s wait; then the zombie finishes and writes into the returned record
            return orig_fit(reaction_dict, *a, **k)

        self._saved.append((MCSMissingGraphAnalyzer, "fit", MCSMissingGraphAnalyzer.__dict__["fit"]))
        MCSMissingGraphAnalyzer.fit = staticmethod(fit)

        orig_graph = ms.find_graph_dict

        def graph_dict(mcs_dict, *a, **k):
            F._graph_ids = [d.get("id") for d in mcs_dict]
            F._graph_i = 0
            return orig_graph(mcs_dict, *a, **k)

        self._saved.append((ms, "find_graph_dict", ms.find_graph_dict))
        ms.find_graph_dict = graph_dict

        orig_pairs = FindMissingGraphs.find_missing_parts_pairs

        def pairs(*a, **k):
            i = F._graph_i
            F._graph_i += 1
            rid = F._graph_ids[i] if i < len(F._graph_ids) else None
            kind = F.graph.get(rid)
            if kind == "raise":
                F.fired.append(("graph", rid, kind))
                raise RuntimeError("injected fragment-analysis failure")
            if kind == "raise-empty":
                F.fired.append(("graph", rid, kind))
                raise TimeoutError()
            if kind == "timeout":
                F.fired.append(("graph", rid, kind))
                time.sleep(F.sleep)
            if kind == "timeout-long":
                # the abandoned job keeps running for more than a whole further budget: whatever is analysed next must not
                # have to wait for it
                F.fired.append(("graph", rid, kind))
                time.sleep(2 * F.sleep)
            return orig_pairs(*a, **k)

        self._saved.append((FindMissingGraphs, "find_missing_parts_pairs", FindMissingGraphs.__dict__["find_missing_parts_pairs"]))
        FindMissingGraphs.find_missing_parts_pairs = staticmethod(pairs)

        if self.merge:
            import synrbl.SynMCSImputer.mcs_based_method as mbm

            orig_impute, orig_merge = mbm.impute_reaction, mbm.merge

            def impute(reaction_dict, *a, **k):
                F._cur_rid = reaction_dict.get("id")
                try:
                    return orig_impute(reaction_dict, *a, **k)
                finally:
                    F._cur_rid = None

            def merge(*a, **k):
                kind = F.merge.get(F._cur_rid)
                if kind == "raise":
                    F.fired.append(("merge", F._cur_rid, kind))
                    raise RuntimeError("injected merge failure")
                if kind == "raise-empty":
                    F.fired.append(("merge", F._cur_rid, kind))
                    raise AssertionError()
                return orig_merge(*a, **k)

            self._saved.append((mbm, "impute_reaction", orig_impute))
            self._saved.append((mbm, "merge", orig_merge))
            mbm.impute_reaction = impute
            mbm.merge = merge
        return self

    def __exit__(self, *a):
        for obj, name, old in reversed(self._saved):
            setattr(obj, name, old)
        self._saved = []

    def affected(self):
        return {k[0] for k in self.search} | set(self.graph) | set(self.merge)



class SkewedClock:
    """A machine on which time passes much faster: every reading of a Python clock (time.time / monotonic / perf_counter and
    their _ns variants) is `step` seconds later than the previous one.  Code that never consults the clock is unaffected;
    code whose result depends on elapsed time (an undocumented time limit, a deadline) behaves as on a slow or loaded
    machine.  Only for stages without documented wall-clock timeouts (everything before the MCS search)."""

    NAMES = ("time", "monotonic", "perf_counter")

    def __init__(self, step=30.0):
        self.step = step
        self.reads = 0
        self._saved = []

    def __enter__(self):
        import sys
        import time as T

        S = self
        originals = {n: getattr(T, n) for n in self.NAMES}
        originals.update({n + "_ns": getattr(T, n + "_ns") for n in self.NAMES})

        def make(name):
            orig = originals[name]
            scale = 10**9 if name.endswith("_ns") else 1

            def fake():
                S.reads += 1
                return orig() + type(orig())(S.reads * S.step * scale)

            return fake

        fakes = {n: make(n) for n in originals}
        for n, f in fakes.items():
            self._saved.append((T, n, originals[n]))
            setattr(T, n, f)
        # `from time import monotonic` style references inside the package under test
        for mname, mod in list(sys.modules.items()):
            if not mname.startswith("synrbl") or mod is None:
                continue
            for attr, val in list(vars(mod).items()):
                for n, o in originals.items():
                    if val is o:
                        self._saved.append((mod, attr, o))
                        setattr(mod, attr, fakes[n])
        return self

    def __exit__(self, *a):
        for obj, name, old in reversed(self._saved):
            setattr(obj, name, old)
        self._saved = []
