"""Entry point of every registered check: ./check Cxx [--tier quick|thorough] [--replay file]"""
import argparse
import importlib
import os
import sys
import traceback

HERE = os.path.dirname(os.path.abspath(__file__))
sys.path.insert(0, HERE)
sys.path.insert(0, os.path.join(HERE, "props"))


def main():
    ap = argparse.ArgumentParser()
    ap.add_argument("prop")
    ap.add_argument("--tier", default=os.environ.get("VERIF_TIER", "quick"), choices=["quick", "thorough"])
    ap.add_argument("--replay", default=None)
    a = ap.parse_args()
    seed = int(os.environ.get("VERIF_SEED", "20260927"))
    import core

    core.quiet()
    ctx = core.Ctx(a.prop, a.tier, seed)
    try:
        mod = importlib.import_module(a.prop)
    except ModuleNotFoundError:
        print("unknown property %s" % a.prop)
        return 2
    try:
        if a.replay:
            return mod.replay(ctx, a.replay) if hasattr(mod, "replay") else core.generic_replay(ctx, mod, a.replay)
        return mod.run(ctx)
    except Exception:
        traceback.print_exc()
        print("ERROR %s: harness failure (exit 2, not a verdict)" % a.prop)
        return 2


if __name__ == "__main__":
    rc = main()
    sys.stdout.flush()
    os._exit(rc)
