"""Entry point of every registered check: ./check Cxx [--tier quick|thorough] [--replay file]"""
import argparse
import importlib
import os
import sys
import traceback

HERE = os.path.dirname(os.path.abspath(__file__))
sys.path.insert(0, HERE)
sys.path.insert(0, os.path.join(HERE, "props"))


def main():
    ap = argparse.ArgumentParser()
    ap.add_argument("prop")
    ap.add_argument("--tier", default=os.environ.get("VERIF_TIER", "quick"), choices=["quick", "thorough"])
    ap.add_argument("--replay", default=None)
    a = ap.parse_args()
    seed = int(os.environ.get("VERIF_SEED", "20260927"))
    import core

    core.quiet()
    ctx = core.Ctx(a.prop, a.tier, seed)
    try:
        mod = importlib.import_module(a.prop)
    except ModuleNotFoundError:
        print("unknown property %s" % a.prop)
        return 2
    try:
        if a.replay:
            return mod.replay(ctx, a.replay) if hasattr(mod, "replay") else core.generic_replay(ctx, mod, a.replay)
        return mod.run(ctx)
    except Exception as e:
        traceback.print_exc()
        # An exception that passed through the implementation's own code (a frame under the repository) means the harness
        # can no longer drive the current code through the interfaces the model was tied to: that is a broken correspondence,
        # decided like any other (failing-input search, then VIOLATION with or without a concrete input).  Anything else
        # (the harness's own bug, the environment) stays exit 2: not a verdict.
        frames = traceback.extract_tb(e.__traceback__)
        repo = os.path.realpath(core.REPO) + os.sep
        through_repo = [f for f in frames if os.path.realpath(f.filename).startswith(repo)]
        in_translator = [f for f in frames if os.path.basename(f.filename).startswith("gen_") and os.path.dirname(os.path.realpath(f.filename)) == HERE]
        if in_translator and not through_repo and not a.replay:
            # a translator (gen_*.py) could not read what the source / data files say now: a broken proof obligation
            f = in_translator[-1]
            ctx.obligation("translator %s:%s" % (os.path.basename(f.filename), f.name), "translator", False, "%s: %s" % (type(e).__name__, e))
            try:
                return ctx.finish(getattr(mod, "search", None))
            except Exception:
                traceback.print_exc()
        if through_repo and not a.replay:
            f = through_repo[-1]
            ctx.corr_break(
                "harness-could-not-drive-the-implementation",
                {"at": "%s:%d in %s" % (os.path.relpath(f.filename, core.REPO), f.lineno, f.name)},
                "the interfaces the correspondence is tied to (signatures, row keys, statistics keys)",
                "%s: %s" % (type(e).__name__, e),
            )
            try:
                return ctx.finish(getattr(mod, "search", None))
            except Exception:
                traceback.print_exc()
        if (ctx.breaks or ctx.violations) and not a.replay:
            # the harness stumbled AFTER a proof obligation / the correspondence had already broken or a violation had been
            # recorded (typically: it indexes into results that are no longer there): decide on what was established
            ctx.notes.append("harness exception after a recorded break: %s: %s" % (type(e).__name__, e))
            try:
                return ctx.finish(getattr(mod, "search", None))
            except Exception:
                traceback.print_exc()
        print("ERROR %s: harness failure (exit 2, not a verdict)" % a.prop)
        return 2


def kill_workers():
    """joblib/loky keeps idle worker processes (which hold our stdout) for minutes: end them with the check"""
    try:
        from joblib.externals.loky import get_reusable_executor

        get_reusable_executor().shutdown(wait=False, kill_workers=True)
    except Exception:
        pass
    try:
        import multiprocessing

        for c in multiprocessing.active_children():
            c.kill()
    except Exception:
        pass
    try:
        import signal
        import subprocess

        out = subprocess.run(["pgrep", "-P", str(os.getpid())], capture_output=True, text=True).stdout.split()
        for pid in out:
            try:
                os.kill(int(pid), signal.SIGKILL)
            except Exception:
                pass
    except Exception:
        pass


if __name__ == "__main__":
    rc = main()
    sys.stdout.flush()
    kill_workers()
    os._exit(rc)
