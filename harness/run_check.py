"""Entry point of every registered check: ./check Cxx [--tier quick|thorough] [--replay file]"""
import argparse
import importlib
import os
import sys
import traceback

HERE = os.path.dirname(os.path.abspath(__file__))
sys.path.insert(0, HERE)
sys.path.insert(0, os.path.join(HERE, "props"))


def main():
    ap = argparse.ArgumentParser()
    ap.add_argument("prop")
    ap.add_argument("--tier", default=os.environ.get("VERIF_TIER", "quick"), choices=["quick", "thorough"])
    ap.add_argument("--replay", default=None)
    a = ap.parse_args()
    seed = int(os.environ.get("VERIF_SEED", "20260927"))
    import core

    core.quiet()
    ctx = core.Ctx(a.prop, a.tier, seed)
    try:
        mod = importlib.import_module(a.prop)
    except ModuleNotFoundError:
        print("unknown property %s" % a.prop)
        return 2
    try:
        if a.replay:
            return mod.replay(ctx, a.replay) if hasattr(mod, "replay") else core.generic_replay(ctx, mod, a.replay)
        return mod.run(ctx)
    except Exception:
        traceback.print_exc()
        print("ERROR %s: harness failure (exit 2, not a verdict)" % a.prop)
        return 2


def kill_workers():
    """joblib/loky keeps idle worker processes (which hold our stdout) for minutes: end them with the check"""
    try:
        from joblib.externals.loky import get_reusable_executor

        get_reusable_executor().shutdown(wait=False, kill_workers=True)
    except Exception:
        pass
    try:
        import multiprocessing

        for c in multiprocessing.active_children():
            c.kill()
    except Exception:
        pass
    try:
        import signal
        import subprocess

        out = subprocess.run(["pgrep", "-P", str(os.getpid())], capture_output=True, text=True).stdout.split()
        for pid in out:
            try:
                os.kill(int(pid), signal.SIGKILL)
            except Exception:
                pass
    except Exception:
        pass


if __name__ == "__main__":
    rc = main()
    sys.stdout.flush()
    kill_workers()
    os._exit(rc)
