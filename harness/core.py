"""Shared machinery of the checks: table generation, Lean build + audit, driver I/O, correspondence
bookkeeping, known findings, evidence, verdict lines.  Run with /venv/bin/python (the interpreter that has the
repository's dependencies)."""
import fcntl
import hashlib
import json
import logging
import os
import random
import re
import subprocess
import sys
import time
import traceback

VERIF = os.path.dirname(os.path.dirname(os.path.abspath(__file__)))
REPO = os.environ.get("SYNRBL_REPO", "/repo")
LEAN_DIR = os.path.join(VERIF, "lean")
DRIVER = os.path.join(LEAN_DIR, ".lake", "build", "bin", "driver")
EVIDENCE_DIR = os.environ.get("SYNRBL_VERIF_EVIDENCE_DIR") or os.path.join(VERIF, "evidence")  # override: seeded-defect runs only
REPLAY_DIR = os.path.join(VERIF, "replays")
CORPUS_DIR = os.path.join(VERIF, "corpus")
KNOWN = os.path.join(VERIF, "known_findings.json")
LOCK = os.path.join(LEAN_DIR, ".lake-verif.lock")
ALLOWED_AXIOMS = {"propext", "Classical.choice", "Quot.sound"}
FORBIDDEN = re.compile(
    r"\b(sorry|admit|native_decide|bv_decide|implemented_by|unsafe)\b|^\s*axiom\s|maxHeartbeats\s+0\b", re.M
)

os.environ.setdefault("SYNRBL_VERIF", "1")
if REPO not in sys.path:
    sys.path.insert(0, REPO)


def quiet():
    logging.disable(logging.CRITICAL)
    try:
        from rdkit import RDLogger

        RDLogger.DisableLog("rdApp.*")
    except Exception:
        pass
    import warnings

    warnings.filterwarnings("ignore")


def strip_lean_comments(src):
    """remove /- … -/ (nested) and -- … comments, and string literals"""
    out = []
    i, n, depth = 0, len(src), 0
    while i < n:
        if src.startswith("/-", i):
            depth += 1
            i += 2
        elif depth and src.startswith("-/", i):
            depth -= 1
            i += 2
        elif depth:
            i += 1
        elif src.startswith("--", i):
            j = src.find("\n", i)
            i = n if j < 0 else j
        elif src[i] == '"':
            j = i + 1
            while j < n and src[j] != '"':
                j += 2 if src[j] == "\\" else 1
            i = j + 1
        else:
            out.append(src[i])
            i += 1
    return "".join(out)


def repo_tree_hash(subdirs=("synrbl", "Data/Rules")):
    h = hashlib.sha256()
    for sd in subdirs:
        root = os.path.join(REPO, sd)
        for dp, dn, fn in sorted(os.walk(root)):
            dn[:] = sorted(d for d in dn if d != "__pycache__")
            for f in sorted(fn):
                if f.endswith((".pyc",)):
                    continue
                p = os.path.join(dp, f)
                h.update(os.path.relpath(p, REPO).encode())
                with open(p, "rb") as fh:
                    h.update(hashlib.sha256(fh.read()).digest())
    return h.hexdigest()


class Lake:
    """serialises every use of lake/.lake across concurrently running checks"""

    def __enter__(self):
        os.makedirs(LEAN_DIR, exist_ok=True)
        self.f = open(LOCK, "w")
        fcntl.flock(self.f, fcntl.LOCK_EX)
        return self

    def __exit__(self, *a):
        fcntl.flock(self.f, fcntl.LOCK_UN)
        self.f.close()


def run(cmd, cwd=None, timeout=None, inp=None):
    p = subprocess.run(
        cmd, cwd=cwd, input=inp, stdout=subprocess.PIPE, stderr=subprocess.STDOUT, timeout=timeout, text=True
    )
    return p.returncode, p.stdout


class Ctx:
    def __init__(self, prop, tier, seed):
        self.prop = prop
        self.tier = tier
        self.seed = seed
        self.rng = random.Random(seed)
        self.t0 = time.time()
        self.evaluations = 0
        self.nontrivial = set()
        self.samples = []
        self.rule = ""
        self.dist = {}
        self.traces = 0
        self.obligations = []  # [{name, kind, ok, axioms|detail}]
        self.breaks = []  # proof obligations / correspondences that no longer check
        self.violations = []  # property violations on the real code
        self.notes = []
        self.trusted = [
            "Lean 4.33.0 kernel (axioms accepted: propext, Classical.choice, Quot.sound; no native_decide/bv_decide/sorry)",
            "harness/gen_tables.py (data translator), harness correspondence runners and the driver's JSON glue",
        ]
        self.assumptions = []
        self.checker_cmd = ""
        self.exhaustive = False
        self.extra = {}
        self.gen_info = {}

    # ---------------------------------------------------------------- bookkeeping
    def count(self, key, n=1):
        self.dist[key] = self.dist.get(key, 0) + n

    def case(self, key=None, nontrivial=True, n=1):
        self.evaluations += n
        if nontrivial and key is not None:
            self.nontrivial.add(key if isinstance(key, (str, int, tuple)) else json.dumps(key, sort_keys=True))

    def sample(self, s, limit=6):
        if len(self.samples) < limit:
            self.samples.append(s)

    def obligation(self, name, kind, ok, detail=""):
        self.obligations.append({"name": name, "kind": kind, "ok": bool(ok), "detail": detail})
        if not ok:
            self.breaks.append({"kind": kind, "name": name, "detail": detail[-4000:]})

    def corr_break(self, layer, case, model, impl):
        """the model and the implementation disagree on `case`"""
        self.breaks.append(
            {"kind": "correspondence", "name": layer, "case": case, "model": model, "impl": impl}
        )

    def violation(self, mechanism, witness, detail="", call_site=""):
        """the real code breaks the property on `witness`"""
        self.violations.append(
            {"mechanism": mechanism, "witness": witness, "detail": detail, "call_site": call_site}
        )

    # ---------------------------------------------------------------- lean
    def gen_tables(self, needs=None):
        """regenerate Generated/*.lean; `needs` = names of the generators this property depends on (None = all)"""
        sys.path.insert(0, os.path.join(VERIF, "harness"))
        import gen_tables

        try:
            with Lake():
                self.gen_info = gen_tables.main()
        except Exception as e:  # a table that can no longer be read is a broken obligation, not a crash
            self.obligation("gen_tables", "translator", False, "%s\n%s" % (e, traceback.format_exc()))
            return False
        ok = True
        for name, err in (self.gen_info.get("failed") or {}).items():
            if needs is None or name in needs:
                ok = False
                self.obligation("gen_tables:" + name, "translator", False, err)
        return ok

    def build(self, targets, name=None, timeout=1500):
        """lake build the given targets; a failure is recorded as a broken obligation named after the target"""
        ok_all = True
        with Lake():
            for t in targets:
                rc, out = run(["lake", "build", t], cwd=LEAN_DIR, timeout=timeout)
                if rc != 0:
                    ok_all = False
                    errs = "\n".join(l for l in out.splitlines() if "error" in l.lower())[:3000]
                    self.obligation(name or t, "lean-build", False, errs + "\n----\n" + out[-3000:])
        return ok_all

    def build_driver(self):
        return self.build(["driver"], name="driver")

    def property_theorems(self, module_file):
        src = strip_lean_comments(open(module_file).read())
        return re.findall(r"^\s*(?:protected\s+)?theorem\s+([^\s:({\[]+)", src, re.M)

    def lean_sources(self):
        out = []
        for dp, dn, fn in os.walk(LEAN_DIR):
            dn[:] = [d for d in dn if d != ".lake"]
            for f in fn:
                if f.endswith(".lean"):
                    out.append(os.path.join(dp, f))
        return sorted(out)

    def audit(self, module, namespace="SynRBL"):
        """module e.g. 'SynRBLModel.Properties.C07': forbidden-token grep over the whole package and
        `#print axioms` for every theorem of the property module."""
        bad = []
        for p in self.lean_sources():
            m = FORBIDDEN.search(strip_lean_comments(open(p).read()))
            if m:
                bad.append("%s: %s" % (os.path.relpath(p, LEAN_DIR), m.group(0).strip()))
        self.obligation("no-sorry/axiom/native_decide grep", "audit", not bad, "; ".join(bad))
        mfile = os.path.join(LEAN_DIR, module.replace(".", "/") + ".lean")
        names = self.property_theorems(mfile)
        audit_dir = os.path.join(LEAN_DIR, ".lake", "audit")
        os.makedirs(audit_dir, exist_ok=True)
        afile = os.path.join(audit_dir, module.split(".")[-1] + ".lean")
        with open(afile, "w") as f:
            f.write("import %s\nopen %s\n" % (module, namespace))
            for n in names:
                f.write("#print axioms %s\n" % n)
        with Lake():
            rc, out = run(["lake", "env", "lean", afile], cwd=LEAN_DIR, timeout=900)
        self.checker_cmd = "cd lean && lake build %s && lake env lean .lake/audit/%s.lean  # #print axioms" % (
            module,
            module.split(".")[-1],
        )
        found = {}
        for m in re.finditer(
            r"'([^']+)' (does not depend on any axioms|depends on axioms: \[([^\]]*)\])", out, re.S
        ):
            axs = set(a.strip() for a in (m.group(3) or "").replace("\n", " ").split(",") if a.strip())
            found[m.group(1).split(".")[-1]] = axs
        if self.tier == "thorough":
            # independent re-check of the compiled module by leanchecker (replays every declaration through the kernel)
            with Lake():
                rc2, out2 = run(["lake", "env", "leanchecker", module], cwd=LEAN_DIR, timeout=1800)
            self.obligation("leanchecker " + module, "recheck", rc2 == 0, out2[-800:])
        for n in names:
            short = n.split(".")[-1]
            if short not in found:
                self.obligation(n, "theorem", False, "not reported by #print axioms (rc=%s): %s" % (rc, out[-1500:]))
            else:
                extra = found[short] - ALLOWED_AXIOMS
                self.obligation(n, "theorem", not extra, "axioms: %s" % sorted(found[short]))
        return names

    def driver(self, ops, timeout=1200):
        """pipe JSON ops to the compiled driver; returns the parsed answers (one per op)"""
        if not ops:
            return []
        inp = "\n".join(json.dumps(o) for o in ops) + "\n"
        p = subprocess.run([DRIVER], input=inp, stdout=subprocess.PIPE, stderr=subprocess.PIPE, text=True, timeout=timeout)
        lines = [l for l in p.stdout.split("\n") if l]
        if p.returncode != 0 or len(lines) != len(ops):
            raise RuntimeError(
                "driver failed rc=%s answers=%d/%d stderr=%s" % (p.returncode, len(lines), len(ops), p.stderr[-500:])
            )
        return [json.loads(l) for l in lines]

    # ---------------------------------------------------------------- verdict
    def load_known(self):
        if not os.path.exists(KNOWN):
            return []
        with open(KNOWN) as f:
            return [k for k in json.load(f).get("findings", []) if k.get("property") == self.prop]

    @staticmethod
    def matches(known, v):
        """a listed finding covers a violation when the mechanism is the same and, if the finding pins inputs,
        the witness is one of them"""
        if known.get("mechanism") != v.get("mechanism"):
            return False
        if known.get("call_site") and v.get("call_site") and known["call_site"] != v["call_site"]:
            return False
        wl = known.get("witnesses")
        if wl is not None:
            return v.get("witness") in wl
        return True

    def finish(self, search=None):
        """decide, write evidence, print verdict lines, exit"""
        known = self.load_known()
        # a broken proof obligation or correspondence triggers the failing-input search
        if self.breaks and not self.violations and search is not None:
            try:
                search(self)
            except Exception as e:
                self.notes.append("search crashed: %s" % e)
        lines = []
        unlisted = []
        seen_known = set()
        for v in self.violations:
            k = next((k for k in known if self.matches(k, v)), None)
            if k is None:
                unlisted.append(v)
            elif k["id"] not in seen_known:
                seen_known.add(k["id"])
                lines.append("KNOWN-FINDING: property=%s %s — %s" % (self.prop, k["id"], k.get("description", "")))
        rc = 0
        os.makedirs(REPLAY_DIR, exist_ok=True)
        if unlisted:
            path = os.path.join(REPLAY_DIR, "%s-%s-%d.json" % (self.prop, self.tier, self.seed))
            with open(path, "w") as f:
                json.dump(
                    {
                        "property": self.prop,
                        "seed": self.seed,
                        "tier": self.tier,
                        "violations": unlisted[:20],
                        "broken": self.breaks[:10],
                        "how_to_replay": "./check %s --replay %s" % (self.prop, os.path.relpath(path, VERIF)),
                    },
                    f,
                    indent=1,
                    default=str,
                )
            lines.append("VIOLATION property=%s replay=%s" % (self.prop, os.path.relpath(path, VERIF)))
            rc = 1
        elif self.breaks:
            # is every break explained by a listed finding that is still reproduced on the real code?
            explained = all(b.get("explained_by") in seen_known for b in self.breaks)
            if not explained:
                path = os.path.join(REPLAY_DIR, "%s-%s-%d.json" % (self.prop, self.tier, self.seed))
                with open(path, "w") as f:
                    json.dump(
                        {
                            "property": self.prop,
                            "seed": self.seed,
                            "tier": self.tier,
                            "no_longer_checks": self.breaks[:10],
                            "note": "a proof obligation or the model/implementation correspondence broke and the "
                            "failing-input search found no input on which the real code violates the property",
                        },
                        f,
                        indent=1,
                        default=str,
                    )
                lines.append(
                    "VIOLATION property=%s replay=%s no-failing-input-found"
                    % (self.prop, os.path.relpath(path, VERIF))
                )
                rc = 1
        self.write_evidence(len(unlisted) + (1 if rc and not unlisted else 0))
        for l in lines:
            print(l)
        print(
            "%s %s tier=%s seed=%d evaluations=%d obligations=%d/%d wall=%.1fs"
            % (
                "OK" if rc == 0 else "FAIL",
                self.prop,
                self.tier,
                self.seed,
                self.evaluations,
                sum(1 for o in self.obligations if o["ok"]),
                len(self.obligations),
                time.time() - self.t0,
            )
        )
        sys.stdout.flush()
        return rc

    def write_evidence(self, nviol):
        os.makedirs(EVIDENCE_DIR, exist_ok=True)
        ev = {
            "property_id": self.prop,
            "tier": self.tier,
            "seed": self.seed,
            "level": "proof",
            "coverage": {
                "obligations": len(self.obligations),
                "discharged": sum(1 for o in self.obligations if o["ok"]),
                "checker_cmd": self.checker_cmd or "cd lean && lake build",
                "trusted_base": self.trusted,
                "obligation_list": [
                    {"name": o["name"], "kind": o["kind"], "ok": o["ok"], "detail": o["detail"][:200]}
                    for o in self.obligations
                ],
                "evaluations": self.evaluations,
                "distinct_nontrivial": len(self.nontrivial),
                "rule": self.rule,
                "samples": self.samples[:8],
                "traces_validated_against_impl": self.traces,
                "input_distribution": self.dist,
                "exhaustive": self.exhaustive,
                "generated_tables": self.gen_info,
                "repo_tree_sha256": repo_tree_hash(),
                "notes": self.notes,
            },
            "assumptions": self.assumptions,
            "wall_s": round(time.time() - self.t0, 2),
            "violations": nviol,
        }
        ev["coverage"].update(self.extra)
        with open(os.path.join(EVIDENCE_DIR, self.prop + ".json"), "w") as f:
            json.dump(ev, f, indent=1, default=str)


def generic_replay(ctx, mod, path):
    """re-execute the run that produced the replay file (same tier and seed: every random choice derives from them)"""
    import random as _r

    with open(path if os.path.isabs(path) else os.path.join(VERIF, path)) as f:
        rep = json.load(f)
    ctx.seed = int(rep.get("seed", ctx.seed))
    ctx.tier = rep.get("tier", ctx.tier)
    ctx.rng = _r.Random(ctx.seed)
    print("replaying %s tier=%s seed=%d" % (rep.get("property"), ctx.tier, ctx.seed))
    for v in rep.get("violations", [])[:5]:
        print("  recorded witness:", json.dumps(v.get("witness"))[:300])
    return mod.run(ctx)
