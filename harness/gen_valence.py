"""Generator of lean/SynRBLModel/Generated/ValenceClasses.lean (property C15).

Two tables, both recomputed from the current working tree of the repository and from RDKit on every run:

* `codeBodies` — for every bracket body of the finite shape the unbracketing regex admits (one or two organic symbols
  x H spelling, 1 320 bodies) and a list of near-miss probes, what the *real* `remove_atom_mapping` does to `[body]`
  (the function is taken from the source text with `ast` and executed on its own, the package is not imported).
  Lean checks that the model's `matchBody` agrees on every one of them.
* `valenceClasses` — the chemical half.  For every one-symbol body `X h` (X in B C N O P S F Cl Br I; h in
  "", H, H0..H9) and every bond environment of total order s = 0..7 — every split of s into single, double and triple
  bonds, realised as `(F)`, `(=O)`, `(#N)` ("hetero" flavour: these are the neighbours RDKit's pre-sanitization clean-up
  of nitro / N-oxide / halogen-oxide notation looks at) and, when a multiple bond is present, also as `(F)`, `(=C)`,
  `(#C)` ("carbon" flavour); 54 environments — RDKit is asked about the bracketed spelling `[Xh]env` and the bare
  spelling `Xenv`: do they parse and sanitize, is the bracketed one closed-shell, did sanitization move formal charges
  onto it (`normalized`), are they the same molecule (canonical SMILES, total H count and radical count of the atom).
  An atom's implicit-hydrogen count depends on its symbol, charge and bond-order sum; the clean-up step additionally
  looks at multiple bonds to O / N — hence the two flavours.
  Two-symbol bodies (`[CN]`, `[ClBr]`, …) are not SMILES bracket atoms: the generator asks RDKit about all 1 200 of
  them and emits those it parses (`twoSymbolParseable`, expected to be empty).
"""
import ast
import os
import re

REPO = os.environ.get("SYNRBL_REPO", "/repo")

ORGANIC1 = ["B", "C", "N", "O", "P", "S", "F", "Cl", "Br", "I"]
HSPELL = ["", "H"] + ["H%d" % d for d in range(10)]
MAX_BONDS = 7
PROBES = [
    "", "H", "H2", "HH", "c", "n", "nH", "cH", "C@H", "C@@H", "13C", "13CH4", "2H", "C-", "C+", "N+", "NH4+", "O-", "OH-",
    "CH10", "CH22", "CHH", "CH3H", "CCC", "CCCl", "ClClCl", "CClH2", "Si", "Sn", "Sc", "Se", "Cu", "Co", "Cs", "Cn", "Ca",
    "Na", "Nb", "Ni", "No", "Os", "Pb", "Pd", "Pt", "Fe", "In", "Ir", "Bi", "Ba", "Be", "Bk", "Br-", "Cl-", "I-", "F-",
    "L", "l", "r", "Cr", "Bl", "lC", "rB", "C:1", "CH3:1", "C:", ":1", "C H", "C\n", "PH2:1", "SH2 ", "IH22", "PHH2",
    "hC", "Ch", "CH+", "PH2+", "SH3+", "*", "C*", "PH", "Ph", "pH", "sH2", "SH2", "PH5", "IH3", "SH6",
]


def lean_chars(s):
    return "[" + ", ".join(lean_char(c) for c in s) + "]"


def lean_char(c):
    if c == "'":
        return "'\\''"
    if c == "\\":
        return "'\\\\'"
    if c == "\n":
        return "'\\n'"
    return "'%s'" % c


def load_remove_atom_mapping():
    """the function the pipeline calls (imported from the current tree), plus the regex literals of its source text
    (documentation only: the function body and any module-level `re.compile(...)`), best effort"""
    import importlib

    src = os.path.join(REPO, "synrbl/SynUtils/chem_utils.py")
    mod = importlib.import_module("synrbl.SynUtils.chem_utils")
    if os.path.realpath(getattr(mod, "__file__", "")) != os.path.realpath(src):
        raise ImportError("synrbl.SynUtils.chem_utils was imported from %s, not from %s" % (getattr(mod, "__file__", None), src))
    fn = getattr(mod, "remove_atom_mapping")
    literals = []
    try:
        with open(src) as f:
            tree = ast.parse(f.read())
        for node in tree.body:
            if isinstance(node, ast.FunctionDef) and node.name == "remove_atom_mapping":
                literals += [n.value for n in ast.walk(node) if isinstance(n, ast.Constant) and isinstance(n.value, str)
                             and n.value != ast.get_docstring(node)]
            elif isinstance(node, ast.Assign):
                for n in ast.walk(node.value):
                    if isinstance(n, ast.Call) and getattr(n.func, "attr", None) == "compile" and n.args and isinstance(n.args[0], ast.Constant):
                        literals.append(n.args[0].value)
    except Exception:
        pass
    return fn, literals


def all_envs():
    """(single, double, triple, carbon) in the order of `Aam.allEnvs` (Model/Aam.lean)"""
    out = []
    for carbon in (False, True):
        for s in range(MAX_BONDS + 1):
            for t in range(s // 3 + 1):
                for d in range((s - 3 * t) // 2 + 1):
                    if carbon and d == 0 and t == 0:
                        continue
                    out.append((s - 3 * t - 2 * d, d, t, carbon))
    return out


def env_text(env):
    a, d, t, carbon = env
    return "(F)" * a + ("(=C)" if carbon else "(=O)") * d + ("(#C)" if carbon else "(#N)") * t


def mol_info(smiles):
    from rdkit import Chem

    m = Chem.MolFromSmiles(smiles)
    if m is None:
        return None
    a0 = m.GetAtomWithIdx(0)
    return {
        "canon": Chem.MolToSmiles(m),
        "h": a0.GetTotalNumHs(),
        "rad0": a0.GetNumRadicalElectrons(),
        "rad": sum(a.GetNumRadicalElectrons() for a in m.GetAtoms()),
        "charged": any(a.GetFormalCharge() != 0 for a in m.GetAtoms()),
    }


def valence_class(x, h, env):
    e = env_text(env)
    br = mol_info("[%s%s]%s" % (x, h, e))
    bare = mol_info("%s%s" % (x, e))
    valid = br is not None
    closed = valid and br["rad"] == 0
    bare_valid = bare is not None
    same = bool(
        valid and bare_valid and br["canon"] == bare["canon"] and br["h"] == bare["h"] and br["rad0"] == bare["rad0"]
    )
    return {
        "sym": x, "hspell": h, "env": env, "valid": valid, "closedShell": closed, "bareValid": bare_valid, "same": same,
        "normalized": bool(valid and br["charged"]),
    }


def all_classes():
    return [valence_class(x, h, env) for x in ORGANIC1 for h in HSPELL for env in all_envs()]


def shape_bodies():
    one = [x + h for x in ORGANIC1 for h in HSPELL]
    two = [x + y + h for x in ORGANIC1 for y in ORGANIC1 for h in HSPELL]
    return one, two


def code_atom(fn, body):
    """what the real function makes of `[body]`: the replacement text if the bracket atom is rewritten, else None"""
    s = "[" + body + "]"
    out = fn(s)
    return None if out == s else out


def gen_valence_classes(info):
    from rdkit import Chem, RDLogger, rdBase

    from gen_tables import HEADER, lean_list, lean_str, write_if_changed  # late: gen_tables imports this module

    RDLogger.DisableLog("rdApp.*")
    fn, literals = load_remove_atom_mapping()
    one, two = shape_bodies()
    bodies = one + two + [p for p in PROBES if "[" not in p and "]" not in p]
    code = [(b, code_atom(fn, b)) for b in bodies]
    two_ok = [b for b in two if Chem.MolFromSmiles("[" + b + "]") is not None]
    classes = all_classes()

    def b(v):
        return "true" if v else "false"

    citems = [
        "(%s, %s)" % (lean_chars(body), "none" if r is None else "some %s" % lean_chars(r)) for body, r in code
    ]
    envs = all_envs()
    rows = []
    for i in range(0, len(classes), len(envs)):
        chunk = classes[i : i + len(envs)]
        codes = [
            int(c["valid"]) + 2 * int(c["closedShell"]) + 4 * int(c["bareValid"]) + 8 * int(c["same"]) + 16 * int(c["normalized"])
            for c in chunk
        ]
        rows.append("(%s, %s, [%s])" % (lean_chars(chunk[0]["sym"]), lean_chars(chunk[0]["hspell"]), ", ".join(map(str, codes))))
    text = (
        HEADER % ("synrbl/SynUtils/chem_utils.py (remove_atom_mapping, executed) and RDKit %s valence model" % rdBase.rdkitVersion)
        + "import SynRBLModel.Model.Aam\nnamespace SynRBL.Generated\nopen SynRBL.Aam\n\n"
        + "/-- string literals of `remove_atom_mapping` in source order (documentation) -/\n"
        + "def aamLiterals : List String := %s\n\n" % lean_list([lean_str(l) for l in literals], 1)
        + "/-- (body, what the real function makes of `[body]`: `some text` if rewritten, `none` if left alone) -/\n"
        + "def codeBodies : List (Str × Option Str) := %s\n\n" % lean_list(citems, 4)
        + "/-- two-symbol bodies of the regex's shape that RDKit accepts as a bracket atom -/\n"
        + "def twoSymbolParseable : List Str := %s\n\n" % lean_list([lean_chars(t) for t in two_ok], 8)
        + "/-- one row per body `X h`: verdicts for the %d environments of `Aam.allEnvs`, in that order, packed as\n"
        "`valid + 2*closedShell + 4*bareValid + 8*same + 16*normalized` -/\n" % len(envs)
        + "def valenceRows : List (Str × Str × List Nat) := %s\n\n" % lean_list(rows, 1)
        + "def valenceClasses : List ValenceClass := expandRows valenceRows\n\n"
        + "end SynRBL.Generated\n"
    )
    info["valence_classes"] = {
        "classes": len(classes),
        "valid_closed_shell": sum(1 for c in classes if c["closedShell"]),
        "unsafe": ["[%s%s]%s" % (c["sym"], c["hspell"], env_text(c["env"])) for c in classes
                   if c["closedShell"] and not c["same"] and code_atom(fn, c["sym"] + c["hspell"]) is not None],
        "code_bodies": len(code),
        "code_unbracketed": sum(1 for _, r in code if r is not None),
        "two_symbol_parseable": two_ok,
        "regex_literals": literals,
        "rdkit": rdBase.rdkitVersion,
    }
    return write_if_changed("ValenceClasses.lean", text)
