"""Translator for the functional-group table: exports what `synrbl/SynUtils/functional_group_utils.py` builds at import
time (`functional_group_config`: per group the pattern, group and anti-pattern molecules of its `FGConfig`) as
labelled graphs in RDKit's atom / neighbour / bond order -> lean/SynRBLModel/Generated/FGConfig.lean.

The molecules are read from the *imported module* (so whatever the constructor does - canonical-SMILES check, atom
removal for `group_atoms`, sorting of the anti-patterns - is in the table); the `group_atoms` argument, which the
object does not keep, is read from the source with `ast` when the dictionary is still a literal of `FGConfig(...)`
calls (otherwise `none`).
"""
import ast
import importlib
import os
import sys

REPO = os.environ.get("SYNRBL_REPO", "/repo")
SRC = "synrbl/SynUtils/functional_group_utils.py"
# molecules whose RDKit graphs the witness theorems of Properties/C16.lean are stated on
WITNESS_MOLS = ["C1OCO1", "Oc1ncccc1O", "CC(C)OC(C)OC", "Oc1ccc[nH]1", "CCO"]


def load_fgutils():
    """the functional_group_utils module of the repository under check (never a stale copy from another tree)"""
    if REPO not in sys.path:
        sys.path.insert(0, REPO)
    mod = importlib.import_module("synrbl.SynUtils.functional_group_utils")
    want = os.path.realpath(os.path.join(REPO, SRC))
    have = os.path.realpath(getattr(mod, "__file__", ""))
    if have != want:
        raise RuntimeError("functional_group_utils imported from %s, expected %s" % (have, want))
    return mod


def mol_graph(mol):
    """{"syms","nbrs","bonds"}: symbol per atom, GetNeighbors() order, (begin, end, int(bond type)) per bond"""
    return {
        "syms": [a.GetSymbol() for a in mol.GetAtoms()],
        "nbrs": [[n.GetIdx() for n in a.GetNeighbors()] for a in mol.GetAtoms()],
        "bonds": [[b.GetBeginAtomIdx(), b.GetEndAtomIdx(), int(b.GetBondType())] for b in mol.GetBonds()],
    }


def source_args():
    """{group name: {"pattern": [smiles], "group_atoms": [..] | None}} from the dict literal, {} if it is not one"""
    out = {}
    try:
        with open(os.path.join(REPO, SRC)) as f:
            tree = ast.parse(f.read())
        for node in tree.body:
            if not (isinstance(node, ast.Assign) and any(getattr(t, "id", None) == "functional_group_config" for t in node.targets)):
                continue
            if not isinstance(node.value, ast.Dict):
                return {}
            for k, v in zip(node.value.keys, node.value.values):
                if not (isinstance(k, ast.Constant) and isinstance(v, ast.Call) and getattr(v.func, "id", None) == "FGConfig"):
                    return {}
                kw = {x.arg: x.value for x in v.keywords}
                pos = list(v.args)
                pat = ast.literal_eval(pos[0] if pos else kw["pattern"])
                ga = pos[1] if len(pos) > 1 else kw.get("group_atoms")
                out[k.value] = {
                    "pattern": pat if isinstance(pat, list) else [pat],
                    "group_atoms": None if ga is None else ast.literal_eval(ga),
                }
    except Exception:
        return {}
    return out


def export_config():
    """[(name, {"pattern": [graph], "groups": [graph], "anti": [graph], "max": int, "group_atoms": [..]|None,
    "smiles": {...}})] in dictionary order"""
    from rdkit import Chem

    mod = load_fgutils()
    src = source_args()
    out = []
    for name, cfg in mod.functional_group_config.items():
        out.append(
            (
                name,
                {
                    "pattern": [mol_graph(m) for m in cfg.pattern],
                    "groups": [mol_graph(m) for m in cfg.groups],
                    "anti": [mol_graph(m) for m in cfg.anti_pattern],
                    "max": int(cfg.max_pattern_size),
                    "group_atoms": (src.get(name) or {}).get("group_atoms"),
                    "smiles": {
                        "pattern": [Chem.MolToSmiles(m) for m in cfg.pattern],
                        "groups": [Chem.MolToSmiles(m) for m in cfg.groups],
                        "anti": [Chem.MolToSmiles(m) for m in cfg.anti_pattern],
                    },
                },
            )
        )
    return out


def lean_graph(g):
    from gen_tables import lean_str

    syms = "[" + ", ".join(lean_str(s) for s in g["syms"]) + "]"
    nbrs = "[" + ", ".join("[" + ", ".join(str(j) for j in ns) + "]" for ns in g["nbrs"]) + "]"
    bonds = "[" + ", ".join("(%d, %d, %d)" % tuple(b) for b in g["bonds"]) + "]"
    return "⟨%s, %s, %s⟩" % (syms, nbrs, bonds)


def gen_fgconfig(info):
    from rdkit import Chem
    # imported here, not at module level: gen_tables lists this function in GENERATORS
    from gen_tables import HEADER, lean_list, lean_str, write_if_changed

    cfg = export_config()
    entries = []
    gatoms = []
    for name, c in cfg:
        sm = c["smiles"]
        entries.append(
            "-- %s: pattern %s, groups %s, anti %s\n  (%s, {\n    pattern := %s,\n    groups := %s,\n    antiPattern := %s,\n    maxPatternSize := %d })"
            % (
                name,
                sm["pattern"],
                sm["groups"],
                sm["anti"],
                lean_str(name),
                lean_list([lean_graph(g) for g in c["pattern"]], 1, "      "),
                lean_list([lean_graph(g) for g in c["groups"]], 1, "      "),
                lean_list([lean_graph(g) for g in c["anti"]], 1, "      "),
                c["max"],
            )
        )
        ga = c["group_atoms"]
        gatoms.append(
            "(%s, %s)" % (lean_str(name), "none" if ga is None else "some [%s]" % ", ".join(str(int(i)) for i in ga))
        )
    text = (
        HEADER % (SRC + " (functional_group_config as built at import time; group_atoms read from the source)")
        + "import SynRBLModel.Model.FGMatch\nnamespace SynRBL.Generated\nopen SynRBL.FG\n\n"
        + "/-- `functional_group_config` in dictionary order: graphs of `FGConfig.pattern`, `.groups`, `.anti_pattern` -/\n"
        + "def fgConfig : FGTable := [\n  "
        + ",\n  ".join(entries)
        + "]\n\n"
        + "/-- the `group_atoms` argument of every entry (`none` = not given) -/\n"
        + "def fgGroupAtoms : List (String × Option (List Nat)) := %s\n\n" % lean_list(gatoms, 4)
        + "/-- RDKit graphs of a few fixed molecules (witnesses and examples of `Properties/C16.lean`) -/\n"
        + "def fgWitnessMols : List (String × GData) := %s\n\n"
        % lean_list(["(%s, %s)" % (lean_str(smi), lean_graph(mol_graph(Chem.MolFromSmiles(smi)))) for smi in WITNESS_MOLS], 1)
        + "/-- graph of one of the fixed molecules -/\n"
        + "def witnessMol (smiles : String) : GData := (fgWitnessMols.lookup smiles).getD default\n\n"
        + "/-- `functional_group_config[name].pattern` -/\n"
        + "def patternsOf (name : String) : List GData := ((fgConfig.lookup name).map (·.pattern)).getD []\n\n"
        + "end SynRBL.Generated\n"
    )
    n_struct = sum(len(c["pattern"]) + len(c["anti"]) for _, c in cfg)
    info["fg_config"] = {
        "groups": len(cfg),
        "pattern_and_anti_pattern_structures": n_struct,
        "group_atoms_from_source": sum(1 for _, c in cfg if c["group_atoms"] is not None),
    }
    return write_if_changed("FGConfig.lean", text)


if __name__ == "__main__":
    import json

    i = {}
    print(gen_fgconfig(i), json.dumps(i))
