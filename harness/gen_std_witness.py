"""One-off tool (not a registered generator): writes lean/SynRBLModel/Model/StandardizeWitness.lean — the recorded
RDKit/fgutils answers for the witnesses of Properties/C20.lean.  The file is *static*; `./check C20` compares every
graph and group list in it with what RDKit/fgutils answer now (driver op `stdWitnesses`) and replays every witness on the
real MoleculeStandardizer.   Usage: PYTHONPATH=harness:harness/props:/repo /venv/bin/python harness/gen_std_witness.py"""
import os
import sys

HERE = os.path.dirname(os.path.abspath(__file__))
sys.path.insert(0, HERE)
sys.path.insert(0, os.path.join(HERE, "props"))

WITNESSES = [
    # name, input SMILES, apply the standardizer a second time to the result?
    ("enolate", "C=C[O-]", False),
    ("gemEnol", "OC(O)=C", False),
    ("orthoAcid", "OC(O)(O)O", False),
    ("alkoxyHemiketal", "CC(O)(OC)C", False),
    ("alkoxyFirst", "CC(OC)(O)C", False),
    ("heuristic", "C(=C)O", False),
    ("enediol", "OC=CO", False),
    ("twoEnols", "C=CO.C=CO", True),
    ("gemDiol", "CC(O)(O)C", True),
    ("enol", "C=CO", True),
]


def lean_graph(g):
    atoms = ", ".join('⟨"%s", %s, %d, %s, %d⟩' % (a[0], a[1] if a[1] >= 0 else "(%d)" % a[1], a[2], "true" if a[3] else "false", a[4]) for a in g["atoms"])
    bonds = ", ".join("⟨%d, %d, %d, %s⟩" % (b[0], b[1], b[2], "true" if b[3] else "false") for b in g["bonds"])
    return "⟨[%s], [%s]⟩" % (atoms, bonds)


def lean_groups(gs):
    return "[" + ", ".join('("%s", [%s])' % (n, ", ".join(map(str, idx))) for n, idx in gs) + "]"


def main():
    import C20
    import core

    ctx = core.Ctx("C20", "quick", 0)
    out = [
        "import SynRBLModel.Model.Standardize",
        "/-! Recorded RDKit / fgutils answers for the witnesses of `Properties/C20.lean` (written by",
        "`harness/gen_std_witness.py`, static; `./check C20` compares every entry with the live answers and replays every",
        "witness on the real `MoleculeStandardizer`). An oracle is three association lists keyed by graph. -/",
        "namespace SynRBL.Standardize.Witness",
        "",
        "structure Data where",
        "  name : String",
        "  smiles : List String                      -- input of each application (1 or 2)",
        "  input : Graph",
        "  groups : List (Graph × List Group)        -- FGQuery.get per application input",
        "  reparsed : List (Graph × Graph)           -- model's edited graph ↦ MolFromSmiles(MolToSmiles(new_mol))",
        "  orders : List (List Nat)                  -- _smilesAtomOutputOrder of the same steps",
        "  canon : List (Graph × Graph)              -- last graph ↦ MolFromSmiles(Chem.CanonSmiles(smiles))",
        "  canonOrders : List (List Nat)",
        "  deriving Repr",
        "",
        "def lookup {β} (t : List (Graph × β)) (g : Graph) (d : β) : β :=",
        "  match t.find? (fun p => p.1 == g) with",
        "  | some p => p.2",
        "  | none => d",
        "",
        "def Data.oracle (d : Data) : Oracle :=",
        "  ⟨fun g => lookup d.groups g [], fun _ g => lookup d.reparsed g g, fun g => lookup d.canon g g⟩",
        "",
        "/-- the recorded result of the `k`-th application: `MolFromSmiles(f(…))` -/",
        "def Data.result (d : Data) (k : Nat) : Graph := (d.canon.getD k default).2",
        "",
    ]
    names = []
    for name, smi, twice in WITNESSES:
        groups, reparsed, orders, canon, canon_orders, smiles = [], [], [], [], [], []
        s = smi
        g0 = C20.export_graph(s)
        for _ in range(2 if twice else 1):
            tr = C20.traced_call(s)
            op = C20.model_op(tr)
            ans = ctx.driver([op])[0]
            smiles.append(s)
            groups.append((op["g"], tr["groups"]))
            k = 0
            for st in ans["steps"]:
                if st["rewrite"]["result"] == "smiles":
                    reparsed.append((st["rewrite"]["g"], op["reparsed"][k]))
                    orders.append(op["orders"][k])
                    k += 1
            if tr["outcome"][0] != "ok":
                break
            last = op["reparsed"][-1] if op["reparsed"] else op["g"]
            canon.append((last, op["canon"]))
            canon_orders.append(op["canonOrder"])
            s = tr["outcome"][1]
        names.append(name)
        out.append("def %s : Data where" % name)
        out.append('  name := "%s"' % name)
        out.append("  smiles := [%s]" % ", ".join('"%s"' % x for x in smiles))
        out.append("  input := %s" % lean_graph(g0))
        out.append("  groups := [%s]" % ",\n    ".join("(%s, %s)" % (lean_graph(a), lean_groups(b)) for a, b in groups))
        out.append("  reparsed := [%s]" % ",\n    ".join("(%s,\n     %s)" % (lean_graph(a), lean_graph(b)) for a, b in reparsed))
        out.append("  orders := [%s]" % ", ".join("[%s]" % ", ".join(map(str, o)) for o in orders))
        out.append("  canon := [%s]" % ",\n    ".join("(%s,\n     %s)" % (lean_graph(a), lean_graph(b)) for a, b in canon))
        out.append("  canonOrders := [%s]" % ", ".join("[%s]" % ", ".join(map(str, o)) for o in canon_orders))
        out.append("")
    out.append("def all : List Data := [%s]" % ", ".join(names))
    out.append("")
    out.append("end SynRBL.Standardize.Witness")
    path = os.path.join(os.path.dirname(HERE), "lean", "SynRBLModel", "Model", "StandardizeWitness.lean")
    with open(path, "w") as f:
        f.write("\n".join(out) + "\n")
    print("wrote", path)


if __name__ == "__main__":
    main()
