"""Stage tracer for Balancer.__run_pipeline: class-level wrappers (no source change in /repo) snapshot every row
after each of the eleven stages and record the kernel answers the Lean row machine needs (its `Oracle`).
All stage methods run in the parent process, so tracing works for every n_jobs."""
import copy
import json

from core import quiet

quiet()

from fractions import Fraction

SCALE = 2 ** 70


def exact(x):
    """a float (np.float32 confidence as Python float, or a float64 threshold) as an exact integer multiple of 2^-70:
    the real code compares them as float64, which is exact comparison of these dyadic rationals"""
    f = Fraction(float(x)) * SCALE
    assert f.denominator == 1, x
    return int(f)


STAGES = ["v_input", "rb1", "v_rb", "search", "impute", "v_mcs1", "post", "rb2", "v_final", "revert", "conf"]


def snap_row(r):
    return {
        "id": r.get("id"),
        "input_reaction": r.get("input_reaction"),
        "reaction": r.get("reaction"),
        "solved": bool(r.get("solved")),
        "solved_by": r.get("solved_by"),
        "issue": r.get("issue") if "issue" in r else None,
        "carbon": r.get("carbon_balance_check"),
        "unbalance": r.get("unbalance_col"),
        "hasMcs": "mcs" in r,
        "mcsOk": r.get("mcs") is not None,
        "rules": r.get("rules") if "rules" in r else None,
        "confidence": r.get("confidence"),
    }


class Tracer:
    def __init__(self):
        self.batches = []
        self.merges = []
        self.cur = None
        self._saved = []
        self._impute_cur = None

    # ------------------------------------------------------------------ install
    def _patch(self, obj, name, new):
        self._saved.append((obj, name, getattr(obj, name)))
        setattr(obj, name, new)

    def __enter__(self):
        import synrbl.balancing as bal
        import synrbl.SynMCSImputer.mcs_based_method as mbm
        from synrbl.confidence_prediction import ConfidencePredictor
        from synrbl.mcs_search import MCSSearch
        from synrbl.postprocess import Validator
        from synrbl.rule_based import RuleBasedMethod
        from synrbl.SynChemImputer.molecule_standardizer import MoleculeStandardizer
        from synrbl.SynChemImputer.post_process import PostProcess

        T = self
        B = bal.Balancer

        def stage(name_fn):
            def deco(orig):
                def w(self_, reactions, *a, **k):
                    out = orig(self_, reactions, *a, **k)
                    if T.cur is not None:
                        T.cur["stages"][name_fn(self_, T.cur)] = [snap_row(r) for r in reactions]
                    return out

                return w

            return deco

        def vname(self_, cur):
            cur["nv"] += 1
            return {1: "v_input", 2: "v_rb", 3: "v_mcs1", 4: "v_final"}.get(cur["nv"], "v_extra%d" % cur["nv"])

        def rbname(self_, cur):
            cur["nrb"] += 1
            return {1: "rb1", 2: "rb2"}.get(cur["nrb"], "rb_extra")

        self._patch(Validator, "check", stage(vname)(Validator.check))
        self._patch(RuleBasedMethod, "run", stage(rbname)(RuleBasedMethod.run))
        self._patch(MCSSearch, "find", stage(lambda s, c: "search")(MCSSearch.find))
        self._patch(mbm.MCSBasedMethod, "run", stage(lambda s, c: "impute")(mbm.MCSBasedMethod.run))
        self._patch(B, "_Balancer__post_process", stage(lambda s, c: "post")(B._Balancer__post_process))
        if hasattr(B, "_Balancer__revert_unbalanced_curation"):
            self._patch(
                B,
                "_Balancer__revert_unbalanced_curation",
                stage(lambda s, c: "revert")(B._Balancer__revert_unbalanced_curation),
            )
        self._patch(ConfidencePredictor, "predict", stage(lambda s, c: "conf")(ConfidencePredictor.predict))

        # one record per pipeline invocation (= per batch of valid rows)
        inner_name = "_Balancer__run_valid_pipeline" if hasattr(B, "_Balancer__run_valid_pipeline") else "_Balancer__run_pipeline"
        orig_inner = getattr(B, inner_name)

        def inner(self_, reactions, stats=None):
            rec = {"stages": {}, "nv": 0, "nrb": 0, "impute": {}, "curate": {}, "stats": None, "error": None,
                   "n_in": len(reactions), "threshold": self_.confidence_threshold}
            T.cur = rec
            T.batches.append(rec)
            try:
                out = orig_inner(self_, reactions, stats)
                rec["stats"] = dict(stats) if stats is not None else None
                return out
            except Exception as e:
                rec["error"] = "%s: %s" % (type(e).__name__, e)
                raise
            finally:
                T.cur = None

        self._patch(B, inner_name, inner)

        # ---- impute_reaction and what it calls
        orig_impute = mbm.impute_reaction

        def impute(reaction_dict, *a, **k):
            rec = {"raised": None, "merge_raised": False, "std_out": None, "std_raised": False, "result": None,
                   "reaction_in": reaction_dict.get("reaction")}
            T._impute_cur = rec
            if T.cur is not None:
                T.cur["impute"][reaction_dict.get("id")] = rec
            try:
                res = orig_impute(reaction_dict, *a, **k)
                rec["result"] = [res[0], list(res[1])]
                return res
            except Exception as e:
                rec["raised"] = str(e)
                raise
            finally:
                T._impute_cur = None

        self._patch(mbm, "impute_reaction", impute)

        def wrap_raise(orig, flag):
            def w(*a, **k):
                try:
                    return orig(*a, **k)
                except Exception:
                    if T._impute_cur is not None:
                        T._impute_cur[flag] = True
                    raise

            return w

        self._patch(mbm, "build_compounds", wrap_raise(mbm.build_compounds, "merge_raised"))
        self._patch(mbm, "merge", wrap_raise(mbm.merge, "merge_raised"))
        orig_std = MoleculeStandardizer.__call__

        def std(self_, smiles, *a, **k):
            try:
                out = orig_std(self_, smiles, *a, **k)
                if T._impute_cur is not None:
                    T._impute_cur["std_out"] = out
                return out
            except Exception:
                if T._impute_cur is not None:
                    T._impute_cur["std_raised"] = True
                raise

        self._patch(MoleculeStandardizer, "__call__", std)

        orig_fit = PostProcess.fit

        def fit(self_, data):
            res = orig_fit(self_, data)
            if T.cur is not None:
                for pp in res:
                    if pp.get("label") != "unspecified" and "curated_reaction" in pp:
                        T.cur["curate"][pp[self_.id_col]] = pp["curated_reaction"]
            return res

        self._patch(PostProcess, "fit", fit)

        # every real call of merge_stats(stats, new_stats): the caller's dictionary before and after (ordered pairs)
        if hasattr(bal, "merge_stats"):
            orig_merge_stats = bal.merge_stats

            def merge_stats(stats, new_stats, *a, **k):
                before = None if stats is None else list(stats.items())
                new = None if new_stats is None else list(new_stats.items())
                r = orig_merge_stats(stats, new_stats, *a, **k)
                T.merges.append({"before": before, "new": new, "after": None if stats is None else list(stats.items())})
                return r

            self._patch(bal, "merge_stats", merge_stats)
        return self

    def __exit__(self, *a):
        for obj, name, old in reversed(self._saved):
            setattr(obj, name, old)
        self._saved = []


MODEL_MSGS = (
    "Skip reaction because of previous issue.",
    "Skipped because of reactants imbalance.",
    "Invalid value '",
    "Failed to impute the correct structure.",
)


def oracle_for_row(batch, i):
    """the Lean `Oracle` of row i of a traced batch, as the JSON fields of a `pipelineRow` op"""
    from synrbl.SynProcessor import CheckCarbonBalance, RSMIDecomposer

    st = batch["stages"]
    rid = st["v_input"][i]["id"]
    strings = set()
    for name in STAGES:
        if name in st and i < len(st[name]):
            strings.add(st[name][i]["reaction"])
    imp = batch["impute"].get(rid)
    merge_err = std_err = None
    merged = ""
    rules = []
    if imp is not None:
        m = imp["raised"]
        if imp["result"] is not None:
            full, rules = imp["result"]
            merged = full[len(imp["reaction_in"]) + 1 :]
        elif m is not None:
            if imp["merge_raised"] or m == "Empty compound set.":
                merge_err = m
            elif m.startswith(MODEL_MSGS):
                merged = imp["std_out"] if imp["std_out"] is not None else ""
            else:
                std_err = m
        if merged:
            strings.add(imp["reaction_in"] + "." + merged)
    search = st.get("search", [])
    srow = search[i] if i < len(search) else None
    found = bool(srow and srow["hasMcs"] and srow["mcsOk"])
    sissue = (srow["issue"] or "") if (srow and found) else ""
    curate = []
    if rid in batch["curate"] and "v_mcs1" in st:
        curate.append([st["v_mcs1"][i]["reaction"], batch["curate"][rid]])
        strings.add(batch["curate"][rid])
    sides = set()
    for s in strings:
        if isinstance(s, str):
            for t in s.split(">>"):
                sides.add(t)
    comp = [[s, [[k, int(v)] for k, v in RSMIDecomposer.decompose(s).items()]] for s in sorted(sides)]
    carbon = [[s, CheckCarbonBalance.count_atoms(s, "C", {})] for s in sorted(sides)]
    conf_row = st["conf"][i] if "conf" in st and i < len(st["conf"]) else None
    c = conf_row["confidence"] if conf_row else None
    return {
        "op": "pipelineRow",
        "input": st["v_input"][i]["input_reaction"],
        "comp": comp,
        "carbon": carbon,
        "searchFound": found,
        "searchIssue": sissue,
        "mergeErr": merge_err,
        "stdErr": std_err,
        "merged": merged,
        "mergeRules": list(rules),
        "curate": curate,
        "conf": exact(c) if c is not None else 0,
        "threshold": exact(batch["threshold"]),
    }


def canon_row(r):
    """what the model predicts of a snapshot"""
    c = r.get("confidence")
    issue = r.get("issue")
    if isinstance(issue, str) and issue.startswith("Confidence is below the threshold of"):
        issue = "Confidence is below the threshold."
    return {
        "input_reaction": r["input_reaction"],
        "reaction": r["reaction"],
        "solved": r["solved"],
        "solved_by": r["solved_by"],
        "issue": issue,
        "carbon": r["carbon"],
        "unbalance": r["unbalance"],
        "hasMcs": r["hasMcs"],
        "mcsOk": r["mcsOk"],
        "rules": r["rules"],
        "confidence": exact(c) if c is not None else None,
    }


def compare_batch(ctx, batch, layer="Pipeline"):
    """run the model on every row of a traced batch and diff all stage snapshots and the statistics"""
    st = batch["stages"]
    if batch["error"] is not None or "v_input" not in st:
        return None
    n = len(st["v_input"])
    ops = [oracle_for_row(batch, i) for i in range(n)]
    ans = ctx.driver(ops)
    bad = 0
    totals = {}
    for i, a in enumerate(ans):
        if "error" in a:
            ctx.corr_break(layer, ops[i]["input"], a, "driver error")
            continue
        for k, v in a["stats"].items():
            totals[k] = totals.get(k, 0) + v
        for si, name in enumerate(STAGES):
            if name not in st:
                continue
            real = canon_row(st[name][i])
            model = dict(a["stages"][si])
            # carbon/unbalance columns do not exist before the first validator wrote them
            if model != real:
                bad += 1
                if bad <= 3:
                    diff = {k: (model.get(k), real.get(k)) for k in real if model.get(k) != real.get(k)}
                    ctx.corr_break(layer + ":" + name, ops[i]["input"], diff, "stage snapshot differs (model, impl)")
                break
        ctx.traces += 1
    if batch["stats"] is not None:
        real_stats = {k: batch["stats"].get(k, 0) for k in totals if k != "reaction_cnt"}
        model_stats = {k: v for k, v in totals.items() if k != "reaction_cnt"}
        if real_stats != model_stats:
            ctx.corr_break(layer + ":stats", {"n": n}, model_stats, real_stats)
    return ans
