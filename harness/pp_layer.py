"""Correspondence runner of the reagent post-processing layer (Model/PostProcess.lean), used by C02.

`corr_postprocess(ctx, reactions)` runs, for every reaction string,
  * the REAL `PostProcess(id_col="id", reaction_col="reaction", n_jobs=1, verbose=0).fit([row])` (label, curated reaction,
    or the exception it raises), and — on all rows that do not raise, in one batch — the REAL
    `Balancer.__post_process` (what is written back to the reaction column / `uncurated_reaction`),
  * the Lean model (`curate` driver op) fed with the answers of `find_functional_reactivity` and `count_radical_atoms`
    recorded by calling them directly on the same strings,
and reports every disagreement through `ctx.corr_break`.  It also compares the balance verdict of every shipped template
(model: `decompose`/`compareDicts` over Generated/Templates.lean; real: `RSMIDecomposer` + `RSMIComparator` on the joined
template strings) and monitors the facts the theorems use as hypotheses (template tokens free of `>` and `.`).

Reaction strings: rows of the real pipeline right before post-processing (`stages["v_mcs1"]`, solved by rule-based /
mcs-based: they carry the `.[O]` / `.[H]` placeholders the rule-based stage appends), hand-made reactions for every key
of compounds_template.json and for every quirk of the code, and seeded token-level mutations of both.

Stand-alone: `PYTHONPATH=harness:/repo /venv/bin/python harness/pp_layer.py`.
"""
import contextlib
import io
import json

from core import quiet

quiet()

LAYER = "PostProcess"

# one (or more) reaction per key of compounds_template.json, in the form the rule-based stage leaves them
HANDMADE = [
    # oxidation: primary_alcohol>>aldehyde, secondary_alcohol>>ketone, primary_alcohol>>carboxylic_acid, aldehyde>>carboxylic_acid
    "CCO.[O]>>CC=O.O", "OCc1ccccc1.[O]>>O=Cc1ccccc1.O", "CC(O)C.[O]>>CC(C)=O.O", "CC(O)CC.[O]>>CC(=O)CC.O",
    "CCO.[O].[O]>>CC(=O)O.O", "CCCCO.[O].[O]>>CCCC(=O)O.O", "CCO.[O]>>CC(=O)O", "CC=O.[O]>>CC(=O)O",
    "O=Cc1ccccc1.[O]>>OC(=O)c1ccccc1", "OCC(O)C.[O].[O]>>O=CC(=O)C.O.O", "OCCO.[O].[O]>>O=CC=O.O.O",
    # oxidation: "other" (empty template list) and no pattern at all
    "CCS.[O]>>CCS=O", "CCSCC.[O].[O]>>CCS(=O)(=O)CC", "CC=C.[O]>>CC1CO1", "C[O].[O]>>CO", "CCN.[O]>>CCNO", "CC.[O]>>CCO",
    # reduction: aldehyde, ketone, ester, acyl_chloride, amid(e), carboxylic_acid, other
    "CC=O.[H].[H]>>CCO", "O=Cc1ccccc1.[H].[H]>>OCc1ccccc1", "CC(=O)C.[H].[H]>>CC(O)C", "CC(=O)OC.[H].[H].[H].[H]>>CCO.CO",
    "CC(=O)Cl.[H].[H]>>CC=O.Cl", "CC(=O)N.[H].[H].[H].[H]>>CCN.O", "CC(=O)O.[H].[H].[H].[H]>>CCO.O",
    "c1ccccc1[N+](=O)[O-].[H].[H].[H].[H].[H].[H]>>Nc1ccccc1.O.O", "C=C.[H].[H]>>CC", "CC#N.[H].[H].[H].[H]>>CCN",
    "CC(=O)CC=O.[H].[H].[H].[H]>>CC(O)CCO",
    # quirks: odd hydrogen count, both markers, marker inside a larger token, counted-but-not-filtered atoms, first token,
    # placeholders on the product side, empty tokens, arrows
    "CC(=O)C.[H]>>CC(O)C", "CC=O.[H].[H].[H]>>CCO", "CCO.[O].[H].[H]>>CC=O.O", "CCO.[H].[H].[O]>>CC=O.O",
    "CC=O.[H].[H].[O]>>CCO", "CCO.[OH].[O]>>CC=O.O", "CCO.[O][O]>>CC=O", "CCO.[O]=O>>CC=O", "CCO.C[O]>>CC=O",
    "CCO.[O]C>>CC=O", "[O].CCO>>CC=O.O", "[H].[H].CC=O>>CCO", "[O].CCO.[O]>>CC(=O)O.O", "CC=O.[H][H].[H].[H]>>CCO",
    "CC=O.[H][H]>>CCO", "CC=O.[H]Cl.[H].[H]>>CCO.Cl", "CC=O.[H]Cl>>CC(Cl)O", "CC=O.[H].[H+]>>CCO", "CC=O.[2H].[2H]>>CCO",
    "CC=O.[H].[2H]>>CCO", "CCO.[O-].[O]>>CC=O.O", "CCO.[18O]>>CC=O.O", "CCO.[O].[18O]>>CC=O.O", "CCO.[O]>>CC=O.[O]",
    "CC=O.[H].[H]>>CCO.[H]", "CCO..[O]>>CC=O.O", "CCO.[O].>>CC=O.O", "CCO.[O].[O].[O]>>CC=O.O", "CCO.[O]>>CC=O.O>>C",
    "CCO.[O]", "CC=O.[H].[H]", ".[O]>>O", ".[H].[H]>>[H][H]", "CCO.[O]>>", "xx.[O]>>CC=O", "CCO.[O]>>xx", "CC=O.[H].[H]>>xx",
    "xx.[H].[H]>>CCO", "CCO.[O].CC(C)O.[O]>>CC=O.CC(C)=O.O.O", "CC=O.[H].[H].CC(C)=O.[H].[H]>>CCO.CC(C)O",
    "CCO.[O] >>CC=O.O", "CCO. [O]>>CC=O.O", "CCO.[O]>CC=O.O", "CCO.[O]>>>CC=O.O",
]

# the witness theorems of Properties/C02pp.lean, replayed on the real code: reaction -> (outcome, curated)
WITNESSES = {
    "CCO.[O].CC>>CC=O.O.CC": ("written", "CCO.CC.O=[Cr](Cl)(-[O-])=O.c1cc[nH+]cc1>>CC=O.O.CC.O=[Cr](O)O.c1cc[nH+]cc1.[Cl-]"),
    "CCO.[O][O]>>CC=O": ("raises", None),
    "CCO.[OH].[O]>>CC=O.O": ("written", "CCO.[OH].O=[Cr](Cl)(-[O-])=O.c1cc[nH+]cc1.O=[Cr](Cl)(-[O-])=O.c1cc[nH+]cc1>>"
                             "CC=O.O.O=[Cr](O)O.c1cc[nH+]cc1.[Cl-].O=[Cr](O)O.c1cc[nH+]cc1.[Cl-]"),
    "CC=O.[H][H]>>CCO": ("skipped", None),
}

POOL = ["[O]", "[H]", "[OH]", "[H][H]", "O", "[H+]", "[O-]", "C[O]", "[O]C", "[H]Cl", "[O][O]", "[2H]", "", "OO", "[O].[O]", "[H].[H]"]


def cases_from_trace(tr):
    """reaction strings of a `pipeline.traced_run(...)` right before post-processing (stage `v_mcs1`), for the rows that
    `Balancer.__post_process` hands to `PostProcess.fit` (solved by rule-based / mcs-based)"""
    out = []
    for bt in tr.get("batches", []):
        for r in bt.get("stages", {}).get("v_mcs1", []):
            if r.get("solved_by") in ("rule-based", "mcs-based") and isinstance(r.get("reaction"), str):
                out.append(r["reaction"])
    return out


def default_cases(ctx):
    """rule-based outputs of the real pipeline on the redox specials (cached per tree/tier/seed like every traced workload)"""
    import pipeline

    def compute():
        return cases_from_trace(pipeline.traced_run(list(pipeline.SPECIALS), n_jobs=8))

    return pipeline.cached("ppcases", ctx.tier, ctx.seed, compute)


def mutate(rng, rxn):
    """token-level edits: insert / delete / duplicate a token on either side"""
    parts = rxn.split(">>")
    if len(parts) != 2:
        return rxn + rng.choice([".[O]", ".[H]", ">>C"])
    side = rng.randrange(2) if rng.random() < 0.3 else 0
    toks = parts[side].split(".")
    k = rng.random()
    if k < 0.55 or len(toks) < 2:
        toks.insert(rng.randint(0, len(toks)), rng.choice(POOL))
    elif k < 0.8:
        del toks[rng.randrange(len(toks))]
    else:
        i = rng.randrange(len(toks))
        toks.insert(rng.randint(0, len(toks)), toks[i])
    parts[side] = ".".join(toks)
    return ">>".join(parts)


@contextlib.contextmanager
def fg_tree_cache():
    """`find_functional_reactivity` builds a fresh `fgutils.FGQuery()` per call, and every fresh query re-builds the
    functional-group tree of fgutils' default configuration (~0.2 s, a pure function of that configuration).  Inside this
    layer the tree is memoised per configuration (names + patterns); synrbl's code is untouched and both sides of the
    comparison go through the same function."""
    import fgutils.fgconfig as fc

    orig = fc.build_config_tree_from_list
    cache = {}

    def graph_key(g):
        return (str(sorted(g.nodes(data=True), key=str)), str(sorted(g.edges(data=True), key=str)))

    def cached_build(config_list, mapper):
        key = tuple(
            (c.name, c.pattern_str, tuple(c.group_atoms), tuple(graph_key(g) for g in c.anti_pattern), int(c.max_pattern_size))
            for c in config_list
        ) + (type(mapper).__name__, getattr(mapper, "wildcard", None), getattr(mapper, "ignore_case", None))
        if key not in cache:
            cache[key] = orig(config_list, mapper)
        return cache[key]

    fc.build_config_tree_from_list = cached_build
    try:
        yield
    finally:
        fc.build_config_tree_from_list = orig


def oracle_answers(rxn):
    """`find_functional_reactivity(reaction)` and `count_radical_atoms(reactant side, 8 / 1)`, called directly
    (None = the call raised)"""
    from synrbl.SynUtils.chem_utils import count_radical_atoms, find_functional_reactivity

    try:
        a, b = find_functional_reactivity(rxn)
        fg = [list(a), list(b)]
    except Exception:
        fg = None
    parts = rxn.split(">>")
    cnt = {8: None, 1: None}
    if len(parts) == 2:
        for z in (8, 1):
            try:
                cnt[z] = int(count_radical_atoms(parts[0], z))
            except Exception:
                cnt[z] = None
    return fg, cnt[8], cnt[1]


def real_fit(rxn):
    """the real `PostProcess.fit` on one row -> (label, outcome, curated)"""
    from synrbl.SynChemImputer.post_process import PostProcess

    pp = PostProcess(id_col="id", reaction_col="reaction", n_jobs=1, verbose=0)
    try:
        with contextlib.redirect_stdout(io.StringIO()):  # label_reactions prints RDKit's message for unparsable sides
            res = pp.fit([{"id": "r0", "reaction": rxn}])
    except Exception as e:
        return None, "raises", None, "%s: %s" % (type(e).__name__, e)
    if len(res) != 1:
        return None, "wrong-row-count:%d" % len(res), None, ""
    r = res[0]
    label = r.get("label")
    if label != "unspecified" and "curated_reaction" in r:
        return label, "written", r["curated_reaction"], ""
    return label, "skipped", None, ""


def real_write_back(rxns):
    """the real `Balancer.__post_process` on rows that carry these reactions -> per row the new reaction column
    (None = not written, i.e. no `uncurated_reaction` key), or the exception text for the whole batch"""
    from synrbl.SynChemImputer.post_process import PostProcess
    import synrbl.balancing as bal

    b = object.__new__(bal.Balancer)  # no model loading: __post_process only needs the column names and the processor
    b._Balancer__id_col = "id"
    b._Balancer__reaction_col = "reaction"
    b._Balancer__solved_by_col = "solved_by"
    b.post_processor = PostProcess(id_col="id", reaction_col="reaction", n_jobs=1, verbose=0)
    rows = [{"id": "r%d" % i, "reaction": s, "solved_by": ("rule-based", "mcs-based")[i % 2]} for i, s in enumerate(rxns)]
    # rows that must not be touched: input-balanced ones and rows without a solved_by key
    rows.append({"id": "ib", "reaction": "CCO.[O]>>CC=O.O", "solved_by": "input-balanced"})
    rows.append({"id": "nokey", "reaction": "CCO.[O]>>CC=O.O"})
    try:
        with contextlib.redirect_stdout(io.StringIO()):
            b._Balancer__post_process(rows)
    except Exception as e:
        return "%s: %s" % (type(e).__name__, e), rows
    out = []
    for r in rows:
        if "uncurated_reaction" in r:
            out.append({"written": r["reaction"], "uncurated": r["uncurated_reaction"]})
        else:
            out.append(None)
    return out, rows


def corr_tables(ctx):
    """balance verdict of every shipped template: model vs the real decomposer/comparator; table facts the proofs use"""
    import gen_templates
    from synrbl.SynProcessor import RSMIComparator, RSMIDecomposer

    t = gen_templates.normalise()
    ans = ctx.driver([{"op": "templateBalance"}])[0]
    if "error" in ans:
        ctx.corr_break(LAYER + ":templateBalance", {}, ans, "driver error")
        return ans

    def comp(toks):
        return RSMIDecomposer.decompose(".".join(toks)) if toks else {}

    def verdict(x, extra):
        return RSMIComparator.compare_dicts(comp(x["reactants"]), comp(x["products"] + extra))

    named = (
        [("oxidation/" + n, x) for n, x in t["ox"]]
        + [("reduction/%s/ion" % n, x) for n, x in t["red_ion"]]
        + [("reduction/%s/neutral" % n, x) for n, x in t["red_neutral"]]
    )
    real_written = [[n, verdict(x, [])] for n, x in named]
    real_repl = []
    for n, x in t["ox"]:
        for k in (1, 2):
            real_repl.append(["oxidation/" + n, k, verdict(x, ["[O]"] * k)])
    for n, x in t["red_ion"]:
        real_repl.append(["reduction/%s/ion" % n, 2, verdict(x, ["[H]", "[H]"])])
    for n, x in t["red_neutral"]:
        real_repl.append(["reduction/%s/neutral" % n, 2, verdict(x, ["[H]", "[H]"])])
    ctx.case(("pp-tables", json.dumps(real_written)), nontrivial=True)
    if ans["asWritten"] != real_written:
        ctx.corr_break(LAYER + ":template-balance-as-written", {}, ans["asWritten"], real_written)
    if ans["replacement"] != real_repl:
        ctx.corr_break(LAYER + ":template-balance-as-replacement", {}, ans["replacement"], real_repl)
    from rdkit import Chem

    facts = {
        "compoundsOk": all(Chem.MolFromSmiles(s) is not None and ">" not in s and "." not in s for s in t["compounds"]),
        "noGt": all(">" not in s for s in t["compounds"]),
        "noDot": all("." not in s for s in t["compounds"]),
    }
    for k, v in facts.items():
        if ans.get(k) != v:
            ctx.corr_break(LAYER + ":table-fact:" + k, {}, ans.get(k), v)
    ctx.extra["pp_template_balance"] = {"as_written": real_written, "as_replacement": real_repl}
    return ans


MODULE = "SynRBLModel.Properties.C02pp"


def obligations(ctx):
    """build Properties/C02pp.lean (theorems + `decide +kernel` table obligations over the regenerated
    Generated/Templates.lean) and audit its axioms; the caller's checker command is kept"""
    failed = (ctx.gen_info or {}).get("failed") or {}
    if "gen_templates" in failed:
        ctx.obligation("gen_tables:gen_templates", "translator", False, failed["gen_templates"])
    cmd = ctx.checker_cmd
    ok = ctx.build([MODULE])
    if ok:
        ctx.audit(MODULE)
    if cmd:
        ctx.checker_cmd = cmd.replace("  # #print axioms", "") + " && lake build %s && lake env lean .lake/audit/C02pp.lean  # #print axioms" % MODULE
    return ok


def corr_postprocess(ctx, reactions=None, mutations=None, proofs=True):
    """model vs real code on reaction strings; `reactions=None` = the cached pipeline cases.  With `proofs` the Lean
    module of this layer is built and audited first (Generated/Templates.lean must have been regenerated by
    `ctx.gen_tables()` and the driver built, as `_rowmachine.prepare` does).  Returns a summary dict."""
    if proofs:
        obligations(ctx)
    if reactions is None:
        reactions = default_cases(ctx)
    with fg_tree_cache():
        return _corr_postprocess(ctx, list(reactions), mutations)


def _corr_postprocess(ctx, reactions, mutations):
    base = list(reactions)
    n_pipeline = len(base)
    if mutations is None:
        mutations = 800 if ctx.tier == "quick" else 8000
    cases = []
    seen = set()
    for s in base + HANDMADE + list(WITNESSES):
        if s not in seen:
            seen.add(s)
            cases.append(s)
    seeds = list(cases)
    for _ in range(mutations):
        s = ctx.rng.choice(seeds)
        for _ in range(ctx.rng.randint(1, 3)):
            s = mutate(ctx.rng, s)
        if s not in seen:
            seen.add(s)
            cases.append(s)

    corr_tables(ctx)

    ops = []
    real = []
    for s in cases:
        fg, c_o, c_h = oracle_answers(s)
        ops.append({"op": "curate", "reaction": s, "fg": fg, "countO": c_o, "countH": c_h})
        real.append(real_fit(s))
    model = ctx.driver(ops)
    bad = 0
    summary = {"cases": len(cases), "from_pipeline": n_pipeline, "disagreements": 0}
    quiet_rows = []
    for s, op, m, (label, outcome, curated, why) in zip(cases, ops, model, real):
        if "error" in m:
            bad += 1
            ctx.corr_break(LAYER, s, m, "driver error")
            continue
        changed = outcome == "written" and curated != s
        ctx.case(("pp", s), nontrivial=changed)
        ctx.count("pp:%s%s" % (outcome, "" if outcome != "written" else (":changed" if changed else ":unchanged")))
        if label is not None:
            ctx.count("pp:label:" + label)
        mine = {"label": m["label"] if outcome != "raises" else None, "outcome": m["outcome"], "curated": m["curated"]}
        theirs = {"label": label, "outcome": outcome, "curated": curated}
        if mine != theirs:
            bad += 1
            if bad <= 5:
                ctx.corr_break(LAYER, {"reaction": s, "fg": op["fg"], "countO": op["countO"], "countH": op["countH"]},
                               {"label": m["label"], "outcome": m["outcome"], "curated": m["curated"], "why": m.get("why")},
                               {"label": label, "outcome": outcome, "curated": curated, "why": why})
        if outcome != "raises" and m["outcome"] != "raises":
            quiet_rows.append((s, m))
        # statistics on the oracle: is count_radical_atoms the number of tokens equal to the placeholder?
        parts = s.split(">>")
        if len(parts) == 2:
            for z, ph, c in ((8, "[O]", op["countO"]), (1, "[H]", op["countH"])):
                if c is not None and c != parts[0].split(".").count(ph):
                    ctx.count("pp:count(%s)!=tokens-equal-to-placeholder" % ph)
        if outcome == "written" and curated == s:
            ctx.count("pp:curation-returns-input-unchanged")
        if s in WITNESSES and (outcome, curated) != WITNESSES[s]:
            bad += 1
            ctx.corr_break(LAYER + ":witness-no-longer-reproduces", s, list(WITNESSES[s]), [outcome, curated, why])
    # the real write-back (`Balancer.__post_process`) on all rows that do not raise, as one batch
    wb, rows = real_write_back([s for s, _ in quiet_rows])
    if isinstance(wb, str):
        bad += 1
        ctx.corr_break(LAYER + ":write-back-raised", {"n": len(quiet_rows)}, "model: no row raises", wb)
    else:
        for (s, m), w in zip(quiet_rows, wb):
            want = None if m["written"] is None else {"written": m["written"], "uncurated": s}
            if w != want:
                bad += 1
                if bad <= 5:
                    ctx.corr_break(LAYER + ":write-back", s, want, w)
        for w, r in zip(wb[len(quiet_rows):], rows[len(quiet_rows):]):
            if w is not None:
                bad += 1
                ctx.corr_break(LAYER + ":write-back-touched-excluded-row", r.get("id"), None, w)
    ctx.traces += len(cases)
    summary["disagreements"] = bad
    ctx.extra["pp_layer"] = summary
    for s, m in quiet_rows[:2]:
        if m["written"] is not None and m["written"] != s:
            ctx.sample({"pp_input": s, "pp_curated": m["written"]})
    return summary


if __name__ == "__main__":
    import os
    import sys

    import core

    sys.path.insert(0, os.path.join(os.path.dirname(os.path.abspath(__file__)), "props"))
    ctx = core.Ctx("C02", "quick", 1)
    ok = ctx.gen_tables(needs=["gen_templates"])
    ok = ctx.build_driver() and ok
    summ = corr_postprocess(ctx, reactions=[] if "--handmade-only" in sys.argv else None, proofs="--no-proofs" not in sys.argv)
    print("obligations %d/%d" % (sum(1 for o in ctx.obligations if o["ok"]), len(ctx.obligations)))
    print(json.dumps(summ))
    print(json.dumps({k: v for k, v in sorted(ctx.dist.items()) if k.startswith("pp:")}, indent=1))
    for b in ctx.breaks[:10]:
        print("BREAK", json.dumps(b, default=str)[:1500])
    print("cases=%d disagreements=%d breaks=%d" % (summ["cases"], summ["disagreements"], len(ctx.breaks)))
    sys.stdout.flush()
    try:
        import run_check

        run_check.kill_workers()
    except Exception:
        pass
    os._exit(0 if not ctx.breaks and ok else 1)
