"""C18 — run statistics agree with the returned rows."""
import json

import chem
import pipeline
from _rowmachine import prepare

MODULE = "SynRBLModel.Properties.C18"


def statement(ctx, tr):
    pipeline.stmt_c18(ctx, tr)


def extra_runs(ctx, n):
    """cheap runs (mostly balanced / rule-based rows, some malformed) under several batch sizes and thresholds"""
    rng = ctx.rng
    pool = [r for r in pipeline.SPECIALS] + rng.sample(chem.expected_reactions(), 40)
    runs = []
    for _ in range(n):
        k = rng.randint(1, 9)
        rows = [rng.choice(pool) for _ in range(k)]
        if rng.random() < 0.4:
            rows.insert(rng.randint(0, len(rows)), rng.choice(["xx>>C", "CC", "A>B>C", ">>", ""]))
        bs = rng.choice([None, 1, 2, 3, k, k + 1])
        th = rng.choice([0, 0, 0.5, 0.9])
        runs.append(pipeline.traced_run(rows, n_jobs=4, batch_size=bs, threshold=th))
    # batches that contribute only some of the counters: a first batch of rejected rows only, of balanced rows only, of
    # rule-based rows only — the counters that first appear in a later batch must still be reported
    tail = ["CCOCC>>CCO", "CCO>>CC=O", "C>>C", "CC(=O)OCC>>CC(=O)O"]
    for head, bs in ((["xx>>C"], 1), (["xx>>C", "CC"], 2), (["C>>C", "CC>>CC"], 2), (["CCO>>CC=O"], 1), ([""], 1)):
        runs.append(pipeline.traced_run(head + tail, n_jobs=2, batch_size=bs, threshold=0))
    return runs


def threshold_runs(ctx, n_rows, n_thresholds):
    """MCS rows re-run with the threshold set to observed confidences (and their neighbours): the confident count must
    still be the number of rows solved by the MCS method"""
    mix = pipeline.workload_mix(ctx)
    rows = [(inp, r) for inp, r in zip(mix["inputs"], mix["out"] or [])
            if r.get("solved_by") == "mcs-based" and pipeline.is_small(inp, 40)]
    ctx.rng.shuffle(rows)
    rows = rows[:n_rows]
    inputs = [inp for inp, _ in rows] + ["CCO>>CC=O", "C>>C"]
    confs = sorted({r["confidence"] for _, r in rows if r.get("confidence") is not None})
    ts = []
    for c in ctx.rng.sample(confs, min(n_thresholds, len(confs))):
        ts += [round(c, 3), round(round(c, 3) + 0.0004, 4)]
    out = []
    for t in ts:
        tr = pipeline.traced_run(inputs, n_jobs=12, threshold=t, batch_size=ctx.rng.choice([None, 5]))
        out.append(tr)
    return out


def cli_stats_case(ctx):
    """the command-line entry point writes <output>.stats next to the CSV: it must agree with the rows of that CSV"""
    import csv
    import json
    import os
    import shutil
    import tempfile

    import pandas as pd

    from synrbl.SynCmd.cmd_run import impute

    tmp = tempfile.mkdtemp(prefix="synrbl_c18_")
    try:
        # rule-based, balanced, rejected rows and two MCS rows (confidences about 0.16 and 0.87): the thresholds 0.5 and 0.9
        # demote one / both of them
        rows = ["C>>C", "CCO>>CC=O", "xx>>C", "CC(=O)OCC>>CC(=O)O", "CC(=O)C>>CC(O)C", "CCCl>>CC", "CCOCC>>CCO", "C=CC>>CC"]
        src = os.path.join(tmp, "in.csv")
        with open(src, "w", newline="") as f:
            w = csv.writer(f)
            w.writerow(["reaction"])
            for x in rows:
                w.writerow([x])
        for th, bs in ((0, 4), (0.5, 3), (0.9, None)):
            dst = os.path.join(tmp, "out_%s.csv" % th)
            impute(src, dst, "reaction", [], th, n_jobs=2, batch_size=bs)
            st = json.load(open(dst + ".stats"))
            df = pd.read_csv(dst, keep_default_na=False)
            out = df.to_dict("records")
            for r in out:
                r["solved"] = str(r.get("solved")) == "True"
                r["solved_by"] = r.get("solved_by") or None
            statement(ctx, {"inputs": rows, "out": out, "stats": st, "batch_size": bs, "threshold": th})
            ctx.count("cli-stats-file-checked")
            if th and not any(r["solved_by"] == "mcs-based" and not r["solved"] for r in out):
                ctx.notes.append("CLI statistics case: no MCS row was demoted at threshold %s" % th)
    except Exception as e:
        ctx.violation("cli-stats-run-failed", "impute()", "%s: %s" % (type(e).__name__, e), "synrbl/SynCmd/cmd_run.py:impute")
    finally:
        shutil.rmtree(tmp, ignore_errors=True)


def failed_batch_runs(ctx):
    """a whole batch fails in a stage that has no per-row guard (the confidence stage raises for the second of three batches):
    whatever rows come back, the statistics must describe exactly those rows"""
    import copy

    from synrbl import Balancer
    from synrbl.confidence_prediction import ConfidencePredictor

    rows = ["C>>C", "CCO>>CC=O", "CC>>CC", "CC(=O)OCC>>CC(=O)O", "CCOCC>>CCO", "CC(=O)C>>CC(O)C"]
    for fail_at in (1, 0, 2):
        calls = {"n": 0}
        orig = ConfidencePredictor.predict

        def predict(self_, *a, **k):
            i = calls["n"]
            calls["n"] += 1
            if i == fail_at:
                raise RuntimeError("injected failure of the confidence stage")
            return orig(self_, *a, **k)

        st = {}
        ConfidencePredictor.predict = predict
        try:
            import contextlib
            import io

            with contextlib.redirect_stderr(io.StringIO()):
                out = Balancer(n_jobs=1, batch_size=2).rebalance(copy.deepcopy(rows), output_dict=True, stats=st)
            err = None
        except Exception as e:
            out, err = None, "%s: %s" % (type(e).__name__, e)
        finally:
            ConfidencePredictor.predict = orig
        ctx.count("failed-batch-run")
        if out is None:
            ctx.violation("run-raises-when-a-batch-fails", {"rows": rows, "failing_batch": fail_at}, err, "synrbl/balancing.py:__rebalance_batch")
            continue
        # the rows that came back, whichever they are, against the statistics (reaction_cnt counts the returned rows)
        statement(ctx, {"inputs": [r.get("input_reaction") for r in out], "out": out, "stats": st, "batch_size": 2, "threshold": 0})


def merge_stats_cases(ctx, n):
    """the real `merge_stats` on seeded dictionary pairs (subsets of the seven counters and foreign keys, any order, zero
    values, empty operands): (a) statement — every key of either operand is reported with the sum of the two values, no
    other key appears; (b) the Lean `mergeStats` returns the same ordered pairs"""
    import copy

    from synrbl.balancing import merge_stats

    rng = ctx.rng
    keys = ["reaction_cnt", "balanced_cnt", "rb_applied", "rb_solved", "mcs_applied", "mcs_solved", "confident_cnt", "extra", "z"]

    def rand_dict():
        ks = rng.sample(keys, rng.randint(0, len(keys)))
        if rng.random() < 0.5:
            ks = [k for k in keys if k in ks]  # stage order, as the pipeline writes them
        return {k: rng.choice([0, 0, 1, 2, 3, 17, 400]) for k in ks}

    pairs = [({}, {}), ({}, {"reaction_cnt": 2}), ({"reaction_cnt": 1}, {k: i for i, k in enumerate(keys[:7])}),
             ({k: i for i, k in enumerate(keys[:7])}, {"reaction_cnt": 3}), ({"reaction_cnt": 1}, {"reaction_cnt": 2, "balanced_cnt": 0})]
    pairs += [(rand_dict(), rand_dict()) for _ in range(n)]
    ops, afters = [], []
    for s, nw in pairs:
        st = copy.deepcopy(s)
        try:
            merge_stats(st, copy.deepcopy(nw))
        except Exception as e:
            ctx.violation("merge_stats-raises", {"stats": s, "new_stats": nw}, "%s: %s" % (type(e).__name__, e), "synrbl/balancing.py:merge_stats")
            return
        ctx.case(("merge", json.dumps([list(s.items()), list(nw.items())])), nontrivial=bool(set(nw) - set(s)))
        want = {k: s.get(k, 0) + nw.get(k, 0) for k in list(s) + [k for k in nw if k not in s]}
        if st != want:
            ctx.violation("merge_stats-loses-or-miscounts-a-key", {"stats": s, "new_stats": nw}, "merged %s, expected %s" % (st, want),
                          "synrbl/balancing.py:merge_stats")
            return
        ops.append({"op": "mergeStats", "s": [[k, v] for k, v in s.items()], "n": [[k, v] for k, v in nw.items()]})
        afters.append([[k, v] for k, v in st.items()])
    for o, a, m in zip(ops, afters, ctx.driver(ops)):
        if m.get("merged") != a:
            ctx.corr_break("Batching.mergeStats", o, m.get("merged", m), a)
            return
    ctx.traces += len(ops)
    ctx.count("merge_stats-pairs", len(ops))


def search(ctx):
    merge_stats_cases(ctx, 2000)
    if ctx.violations:
        return
    for tr in extra_runs(ctx, 60):
        statement(ctx, tr)
        if ctx.violations:
            return
    for tr in threshold_runs(ctx, 40, 10):
        statement(ctx, tr)
        if ctx.violations:
            return


def run(ctx):
    built, drv = prepare(
        ctx,
        MODULE,
        "the real merge_stats on seeded dictionary pairs (subsets of the counters and foreign keys in any order, empty operands) "
        "against its statement (key union, value sums) and the Lean mergeStats (ordered pairs); every merge_stats call of every "
        "traced run against the Lean function; statistics of the shared traced run, of the untraced runs under 5 configurations (see C01) and of seeded small runs (1-9 rows drawn from specials and curated balanced "
        "reactions, sometimes one malformed row) under batch sizes {None,1,2,3,k,k+1} and thresholds {0,0.5,0.9}; every "
        "equality/inequality of the property is evaluated on the real stats dict vs the real rows; the model's per-row "
        "statistics are summed and compared with the real stats of every traced batch (non-trivial = run with at least one row "
        "sent to the MCS stage; distinct by stats dict)",
        ["oracle laws WaterCarbonLaw and RbLaw (hypotheses of C18_attribution) are evaluated on every traced row"],
    )
    if drv:
        tr = pipeline.workload_mix(ctx)
        pipeline.compare_trace(ctx, tr)
        statement(ctx, tr)
        for t2 in extra_runs(ctx, 6 if ctx.tier == "quick" else 60):
            pipeline.compare_trace(ctx, t2)
            if t2["error"]:
                ctx.corr_break("Pipeline:run-raised", t2["inputs"], "model never raises", t2["error"])
            statement(ctx, t2)
        for t3 in threshold_runs(ctx, 14 if ctx.tier == "quick" else 80, 2 if ctx.tier == "quick" else 12):
            pipeline.compare_trace(ctx, t3)
            statement(ctx, t3)
            ctx.count("threshold-run")
        cli_stats_case(ctx)
        merge_stats_cases(ctx, 300 if ctx.tier == "quick" else 5000)
        failed_batch_runs(ctx)
        pipeline.each_config(ctx, lambda name, c: statement(ctx, c))
        ctx.sample({"stats": tr["stats"], "rows": len(tr["out"] or [])})
    return ctx.finish(search)
