"""C18 — run statistics agree with the returned rows."""
import chem
import pipeline
from _rowmachine import prepare

MODULE = "SynRBLModel.Properties.C18"


def statement(ctx, tr):
    pipeline.stmt_c18(ctx, tr)


def extra_runs(ctx, n):
    """cheap runs (mostly balanced / rule-based rows, some malformed) under several batch sizes and thresholds"""
    rng = ctx.rng
    pool = [r for r in pipeline.SPECIALS] + rng.sample(chem.expected_reactions(), 40)
    runs = []
    for _ in range(n):
        k = rng.randint(1, 9)
        rows = [rng.choice(pool) for _ in range(k)]
        if rng.random() < 0.4:
            rows.insert(rng.randint(0, len(rows)), rng.choice(["xx>>C", "CC", "A>B>C", ">>", ""]))
        bs = rng.choice([None, 1, 2, 3, k, k + 1])
        th = rng.choice([0, 0, 0.5, 0.9])
        runs.append(pipeline.traced_run(rows, n_jobs=4, batch_size=bs, threshold=th))
    return runs


def search(ctx):
    for tr in extra_runs(ctx, 60):
        statement(ctx, tr)
        if ctx.violations:
            return


def run(ctx):
    built, drv = prepare(
        ctx,
        MODULE,
        "statistics of the shared traced run and of seeded small runs (1-9 rows drawn from specials and curated balanced "
        "reactions, sometimes one malformed row) under batch sizes {None,1,2,3,k,k+1} and thresholds {0,0.5,0.9}; every "
        "equality/inequality of the property is evaluated on the real stats dict vs the real rows; the model's per-row "
        "statistics are summed and compared with the real stats of every traced batch (non-trivial = run with at least one row "
        "sent to the MCS stage; distinct by stats dict)",
        ["oracle laws WaterCarbonLaw and RbLaw (hypotheses of C18_attribution) are evaluated on every traced row"],
    )
    if drv:
        tr = pipeline.workload_mix(ctx)
        pipeline.compare_trace(ctx, tr)
        statement(ctx, tr)
        for t2 in extra_runs(ctx, 6 if ctx.tier == "quick" else 60):
            pipeline.compare_trace(ctx, t2)
            if t2["error"]:
                ctx.corr_break("Pipeline:run-raised", t2["inputs"], "model never raises", t2["error"])
            statement(ctx, t2)
        ctx.sample({"stats": tr["stats"], "rows": len(tr["out"] or [])})
    return ctx.finish(search)
