"""C04 — an already balanced reaction passes through unchanged as input-balanced."""
import chem
import pipeline
from _rowmachine import prepare

MODULE = "SynRBLModel.Properties.C04"


def balanced_inputs(ctx, n):
    """curated balanced reactions, their reversals, multiples, unions, ionic and heavy-element cases"""
    rng = ctx.rng
    pool = [r for r in chem.expected_reactions() if chem.truly_balanced(r) is True]
    pick = pool if n >= len(pool) else rng.sample(pool, n)
    out = list(pick)
    for r in pick[: max(10, n // 5)]:
        a, b = r.split(">>")
        out.append(b + ">>" + a)  # reversal
        out.append(a + "." + a + ">>" + b + "." + b)  # double
    for _ in range(max(10, n // 5)):
        x, y = rng.choice(pick), rng.choice(pick)
        (a, b), (c, d) = x.split(">>"), y.split(">>")
        out.append(a + "." + c + ">>" + b + "." + d)  # union
    out += [
        "[Na+].[Cl-]>>[Na+].[Cl-]", "[U]>>[U]", "O=[U]=O>>O=[U]=O", "[Og]>>[Og]", "CC(=O)O.[OH-]>>CC(=O)[O-].O", "[NH4+].[OH-]>>N.O",
        "[Cu+2].[Zn]>>[Cu].[Zn+2]", "C1.C1>>CC", "[2H]O[2H]>>[2H]O[2H]", "[H][H].C=C>>CC", "OO>>OO", "CC(C)OO.N>>CC(C)OO.N",
        "[CH3:1][OH:2].[Na:3]>>[CH3:1][O:2][Na:3].[H][H]" if False else "C>>C",
    ]
    # near misses for the converse: one token dropped
    near = []
    for r in pick[: max(10, n // 5)]:
        a, b = r.split(">>")
        ts = b.split(".")
        if len(ts) > 1:
            near.append(a + ">>" + ".".join(ts[:-1]))
    # near misses in charge only: every element conserved, net charge not — all sign combinations of the two sides
    charge_only = [
        "[I-].[I-]>>II", "II>>[I-].[I-]", "[Cl-].[Cl-]>>ClCl", "[O-]C(=O)C([O-])=O>>O=C=O.O=C=O", "O=C=O.O=C=O>>[O-]C(=O)C([O-])=O",
        "[S-]C.[S-]C>>CSSC", "CSSC>>C[S-].C[S-]", "[Fe+2]>>[Fe+3]", "[Fe+3]>>[Fe+2]", "[Cu+]>>[Cu]", "[Cu]>>[Cu+2]",
        "[Na+].[Cl-]>>[Na].[Cl-]", "[Na].[Cl-]>>[Na+].[Cl-]", "[O-]C(C)=O.[O-]C(C)=O>>CC(=O)OOC(C)=O", "[Br-].[Br-].[Br-]>>BrBr.[Br-]",
        "[OH-].[OH-]>>OO", "OO>>[OH-].[OH-]", "[I-].[I-].[Cu+2]>>II.[Cu+2]", "[Zn+2].[Cu]>>[Zn].[Cu]",
    ]
    near = charge_only + near
    return out, near


def statement(ctx, tr):
    from synrbl.SynUtils.chem_utils import remove_atom_mapping

    for raw, r in zip(tr["inputs"], tr["out"]):
        # the balance of the input is judged on the input after atom-map removal (that is what the row reports as
        # input_reaction); radicals such as the [O]/[H] placeholders are rewritten by that step by design (the suite
        # asserts it) and are outside the domain of valid closed-shell molecules
        tb = chem.truly_balanced(remove_atom_mapping(raw))
        if tb is not True and chem.truly_balanced(raw) is True:
            ctx.count("balanced-only-before-map-removal(radical placeholders)")
        ctx.case(("c04", raw), nontrivial=bool(tb))
        if tb is True:
            ctx.count("input-balanced-inputs")
            if not (r.get("solved") and r.get("solved_by") == "input-balanced" and r["reaction"] == remove_atom_mapping(raw)):
                ctx.violation("balanced-input-not-passed-through", raw,
                              "solved=%s by=%s reaction=%s" % (r.get("solved"), r.get("solved_by"), r["reaction"]),
                              "synrbl/postprocess.py:Validator.check")
        if r.get("solved_by") == "input-balanced":
            if tb is not True or r["reaction"] != r["input_reaction"]:
                ctx.violation("input-balanced-label-on-unbalanced-or-altered-row", raw,
                              "truly_balanced=%s reaction=%s" % (tb, r["reaction"]), "synrbl/postprocess.py:Validator.check")


def search(ctx):
    ins, near = balanced_inputs(ctx, 1500)
    tr = pipeline.traced_run(ins + near, n_jobs=14, batch_size=500)
    if tr["out"] is not None:
        statement(ctx, tr)


def run(ctx):
    built, drv = prepare(
        ctx,
        MODULE,
        "curated balanced reactions shipped with the validation set (filtered by an independent RDKit balance), their reversals, "
        "doubles and unions, ionic / heavy-element / isotope / dot-closure specials, and near misses (charge-only imbalances of every sign combination; one product dropped) "
        "(for the converse), plus the shared traced mix; each row compared with the Lean row machine stage by stage "
        "(non-trivial = truly balanced input; distinct by input)",
        ["truth = RDKit composition by atomic number and charge"],
    )
    if drv:
        quick = ctx.tier == "quick"
        ins, near = balanced_inputs(ctx, 120 if quick else 4400)
        tr = pipeline.traced_run(ins + near[: (30 if quick else 320)], n_jobs=12, batch_size=(97 if quick else 500))
        pipeline.compare_trace(ctx, tr)
        if tr["error"] or tr["out"] is None:
            ctx.corr_break("Pipeline:run-raised", {"n": len(ins)}, "model never raises", tr["error"])
        else:
            statement(ctx, tr)
            ctx.sample({"input": ins[0], "row": {k: tr["out"][0].get(k) for k in ("reaction", "solved", "solved_by")}})
        mix = pipeline.workload_mix(ctx)
        if mix["out"] is not None:
            statement(ctx, mix)
        pipeline.each_config(ctx, lambda name, c: statement(ctx, c), with_kept_maps=False)
    return ctx.finish(search)
