"""C10 — MCS search reports genuine, correctly attributed, largest common substructures.

Layers
  1. selection:   real ExtractMCS.get_largest_condition  vs  Lean `getLargest` on result tables (exhaustive in thorough)
  2. attachment:  real MCSSearch.find with stubbed searches  vs  Lean `findT` / `attach` (ids, solved rows, skipped rows)
  3. alignment:   real MCSMissingGraphAnalyzer.fit + single_mcs under cancelled / raising RDKit calls  vs  Lean `searchEntry`
  4. statement:   real MCSSearch.find on corpus batches (plain, re-ordered, under injected faults): oracle laws with RDKit
"""
import collections
import copy
import itertools
import json

import chem
from core import quiet

quiet()
MODULE = "SynRBLModel.Properties.C10"
SITE_SELECT = "synrbl/SynMCSImputer/SubStructure/extract_common_mcs.py:get_largest_condition"
SITE_FIND = "synrbl/mcs_search.py:find"
SITE_LOOP = "synrbl/SynMCSImputer/SubStructure/mcs_graph_detector.py:IterativeMCSReactionPairs"
BAD_SMARTS = "[#6"  # unparsable: ExtractMCS.get_num_atoms counts 0
CANCEL_WITNESS = "CC(=O)OCC.CCN.CCCCBr>>CC(=O)NCC"
LOOP_REACTIONS = [
    CANCEL_WITNESS,
    "CC(=O)OCC.CCN.Brc1ccccc1>>CC(=O)NCCc1ccccc1",
    "CC(=O)Cl.OCC>>CC(=O)OCC",
    "CCO.CC(=O)O.CCCC>>CC(=O)OCC",
    "CC(C)(C)OC(=O)NCC>>NCC.CC(C)=C",
]


# carbon-unbalanced reactions whose carbon-richer side also lists molecules without a heavy atom (H2, H+, H-) or with a
# single one (water, HCl, ammonia): every listed molecule belongs to the reported molecule list
NO_HEAVY_ATOM_RIDERS = [
    "COCc1ccccc1.[H][H]>>Cc1ccccc1", "CC(=O)OCC.[H+]>>CC(=O)O", "CCOC(=O)c1ccccc1.[H-].[Na+]>>OCc1ccccc1", "CC(=O)OCC.O.[H+]>>CC(=O)O",
    "CCOCC.[H][H].[H][H]>>CCO", "CCO>>CCOCC.[H][H]", "CC(=O)O>>CC(=O)OC(C)=O.[H+].[OH-]", "CCBr.[H-]>>C", "CC(=O)NC.Cl.[H][H]>>CN",
]


# ------------------------------------------------------------------------------------------------ helpers
def pat(n):
    """a SMARTS with n atoms (n = -1: unparsable)"""
    if n < 0:
        return BAD_SMARTS
    return "" if n == 0 else "[#6]" + "-[#6]" * (n - 1)


def smarts_atoms(s):
    """independent atom count of a pattern (RDKit), 0 for anything that is not a pattern"""
    from rdkit import Chem

    try:
        m = Chem.MolFromSmarts(s)
    except Exception:
        return 0
    return 0 if m is None else m.GetNumAtoms()


def canon(smiles):
    from rdkit import Chem

    m = Chem.MolFromSmiles(smiles)
    return None if m is None else Chem.MolToSmiles(m)


def norm_smarts(s):
    from rdkit import Chem

    if s is None:
        return None
    m = Chem.MolFromSmarts(s)
    return s if m is None else Chem.MolToSmarts(m)


def contains(smiles, smarts):
    from rdkit import Chem

    m = Chem.MolFromSmiles(smiles)
    q = Chem.MolFromSmarts(smarts)
    return m is not None and q is not None and m.HasSubstructMatch(q)


def cell_dict(cell, c, r, rid=None):
    """a record of a condition table; cell = list of pattern sizes or ("failed", text)"""
    if isinstance(cell, tuple):
        return {"id": str(r) if rid is None else rid, "mcs_results": [], "sorted_reactants": [], "issue": cell[1], "_c": c, "_r": r}
    return {"id": str(r) if rid is None else rid, "mcs_results": [pat(n) for n in cell], "sorted_reactants": ["C"] * len(cell),
            "issue": "", "_c": c, "_r": r}


def cell_sizes(cell):
    return [] if isinstance(cell, tuple) else [max(n, 0) for n in cell]


def real_largest(conds):
    """the real get_largest_condition on tables of dicts → ({row: cond}, error)"""
    from synrbl.SynMCSImputer.SubStructure.extract_common_mcs import ExtractMCS

    try:
        res = ExtractMCS.get_largest_condition(*conds)
    except Exception as e:
        return None, type(e).__name__
    sel = {}
    last = -1
    for d in res:
        if d["_r"] in sel or d["_r"] <= last or conds[d["_c"]][d["_r"]] is not d:
            return None, "result-not-in-row-order-or-not-a-table-record"
        sel[d["_r"]] = d["_c"]
        last = d["_r"]
    return sel, None


def model_sel(ans):
    if ans.get("raises"):
        return None
    return {i: c for i, c in enumerate(ans["sel"]) if c is not None}


# ------------------------------------------------------------------------------------------------ 1. selection
def cell_kinds(thorough):
    kinds = [[]]
    vals = [0, 1, 2, 3]
    kinds += [[a] for a in vals]
    kinds += [[a, b] for a in vals for b in vals]
    kinds += [("failed", "MCS identification failed. x"), ("failed", "MCS search terminated by timeout."), [-1], [-1, 2]]
    if thorough:
        kinds += [[a, b, c] for a in (0, 1, 2) for b in (0, 1) for c in (0, 1, 3)]
        kinds += [[3, 3], [0, 0, 0, 1]]
    else:
        kinds += [[1, 1, 1], [0, 1, 1], [2, 0, 1]]
    # distinct by (total, first, emptiness) is not enough: the code reads the lists, keep them all
    return kinds


def stmt_selection(ctx, conds, sel, where):
    """independent statement on a result of the real get_largest_condition: retained ⇒ maximal total; among the
    maximal ones the largest first pattern; among those the lowest index"""
    n = min(len(c) for c in conds)
    for r in range(n):
        tot = [sum(smarts_atoms(p) for p in c[r]["mcs_results"]) for c in conds]
        fst = [smarts_atoms(c[r]["mcs_results"][0]) if c[r]["mcs_results"] else 0 for c in conds]
        mx = max(tot)
        if r in sel:
            c = sel[r]
            best = [i for i in range(len(conds)) if tot[i] == mx]
            bf = max(fst[i] for i in best)
            want = next(i for i in best if fst[i] == bf)
            if c != want:
                ctx.violation(
                    "retained-condition-is-not-the-largest",
                    {"totals": tot, "firsts": fst, "retained": c},
                    "%s: expected condition %d (largest total, then largest first pattern, then lowest index)" % (where, want),
                    SITE_SELECT,
                )
                return False
        else:
            if mx > 0 and any(fst[i] > 0 for i in range(len(conds)) if tot[i] == mx):
                ctx.violation(
                    "search-result-dropped",
                    {"totals": tot, "firsts": fst},
                    "%s: a row with a non-empty largest result is left out" % where,
                    SITE_SELECT,
                )
                return False
            if mx > 0:
                ctx.count("selection:row-skipped-although-total-positive(first pattern empty)")
    for r in sel:
        if r >= n:
            ctx.violation("row-beyond-shortest-table",
                          {"tables": [[d["mcs_results"] for d in c] for c in conds] if sum(len(c) for c in conds) <= 12 else "large",
                           "row": r, "min_length": n}, where, SITE_SELECT)
            return False
    return True


def corr_selection_tables(ctx, tables, layer="McsSelect.getLargest", stmt=True):
    """tables: list of conds (list per condition of list of cells)"""
    ops, reals = [], []
    for conds_cells in tables:
        conds = [[cell_dict(cell, c, r) for r, cell in enumerate(col)] for c, col in enumerate(conds_cells)]
        sel, err = real_largest(conds)
        reals.append((conds, sel, err))
        ops.append({"op": "mcsLargest", "conds": [[cell_sizes(cell) for cell in col] for col in conds_cells]})
    ans = ctx.driver(ops)
    ok = True
    for conds_cells, (conds, sel, err), a in zip(tables, reals, ans):
        m = model_sel(a)
        nrows = max((len(c) for c in conds_cells), default=0)
        ctx.traces += 1
        ctx.case(("sel", len(conds_cells), nrows, hash(json.dumps(conds_cells))), nontrivial=bool(m), n=max(nrows, 1))
        if m != sel:
            ok = False
            small = conds_cells if nrows <= 6 else first_diff_row(conds_cells, m, sel)
            ctx.corr_break(layer, small, "raises" if m is None else m if nrows <= 6 else "see case", err or (sel if nrows <= 6 else "see case"))
        elif sel is not None and stmt:
            if not stmt_selection(ctx, conds, sel, "synthetic table"):
                ok = False
    return ok


def first_diff_row(conds_cells, m, sel):
    n = min(len(c) for c in conds_cells)
    for r in range(n):
        a = None if m is None else m.get(r)
        b = None if sel is None else sel.get(r)
        if a != b:
            return {"row": [c[r] for c in conds_cells], "model": a, "impl": b}
    return {"rows": n, "model": "raises" if m is None else len(m), "impl": None if sel is None else len(sel)}


def corr_selection(ctx):
    rng = ctx.rng
    thorough = ctx.tier == "thorough"
    kinds = cell_kinds(thorough)
    tables = []
    # hand-placed edge cases: no condition, one condition, unequal lengths, four conditions, empty tables
    tables += [[], [[]], [[], []], [[[1]], []], [[[]]], [[[], [1]]], [[[1], [2], [3]], [[2], [1]]], [[[0, 2]], [[0, 2]]],
               [[[1]], [[1]], [[1]], [[1]]], [[[2, 1]], [[3]], [[1, 2]], [[3]]], [[("failed", "x")], [("failed", "y")], [[0]]]]
    rows3 = list(itertools.product(range(len(kinds)), repeat=3))
    if thorough:
        ctx.exhaustive = True
        pick3 = rows3
    else:
        pick3 = rng.sample(rows3, min(4000, len(rows3)))
    rng.shuffle(pick3)
    chunk = 20000
    for i in range(0, len(pick3), chunk):
        part = pick3[i:i + chunk]
        tables.append([[kinds[t[c]] for t in part] for c in range(3)])
    rows2 = list(itertools.product(range(len(kinds)), repeat=2))
    rng.shuffle(rows2)
    tables.append([[kinds[t[c]] for t in rows2] for c in range(2)])
    tables.append([[k for k in kinds]])
    # small random tables: 1-4 conditions, 0-3 rows, unequal lengths
    for _ in range(60 if not thorough else 1500):
        nc = rng.randint(1, 4)
        tables.append([[rng.choice(kinds) for _ in range(rng.randint(0, 3))] for _ in range(nc)])
    if thorough:
        # every table of <= 3 rows over a reduced alphabet, 3 conditions, including unequal lengths
        small = [[], [1], [2], [0, 2], ("failed", "x")]
        for lens in itertools.product(range(0, 3), repeat=3):
            cells = sum(lens)
            if cells > 4:
                continue
            for fill in itertools.product(range(len(small)), repeat=cells):
                it = iter(fill)
                tables.append([[small[next(it)] for _ in range(l)] for l in lens])
    ncell = sum(len(col) for t in tables for col in t)
    ctx.count("selection:table-cells", ncell)
    ctx.count("selection:tables", len(tables))
    corr_selection_tables(ctx, tables)
    ctx.sample({"selection_table": tables[7], "retained_per_row": "see model"})
    # the table form (`getLargestT`) agrees with the record form
    ops = []
    tsmall = [t for t in tables if sum(len(c) for c in t) <= 12][:400]
    for t in tsmall:
        ops.append({"op": "mcsLargest", "conds": [[cell_sizes(x) for x in col] for col in t]})
        ops.append({"op": "mcsLargestT", "totals": [[sum(cell_sizes(x)) for x in col] for col in t],
                    "firsts": [[(cell_sizes(x) or [0])[0] for x in col] for col in t]})
    ans = ctx.driver(ops)
    for i in range(0, len(ans), 2):
        if ans[i] != ans[i + 1]:
            ctx.corr_break("McsSelect.getLargestT", tsmall[i // 2], ans[i + 1], ans[i])


# ------------------------------------------------------------------------------------------------ 2. attachment
class Stubs:
    """replace the two parallel stages of MCSSearch.find by table-driven stubs (the selection stays real)"""

    def __init__(self, cells_for):
        self.cells_for = cells_for  # (position among unsolved, row id, condition) -> cell
        self.tables = None

    def __enter__(self):
        import synrbl.mcs_search as ms

        self.ms = ms
        self.saved = (ms.ensemble_mcs, ms.find_graph_dict)
        S = self

        def ensemble(data, conditions, id_col="id", issue_col="issue", n_jobs=1, timeout=1):
            S.tables = [
                [cell_dict(S.cells_for(pos, d[id_col], c), c, pos, rid=d[id_col]) for pos, d in enumerate(data)]
                for c in range(len(conditions))
            ]
            return S.tables

        def graph(mcs_dict, n_jobs=1):
            return [{"smiles": [], "issue": "graph-issue", "_g": i} for i, _ in enumerate(mcs_dict)]

        ms.ensemble_mcs = ensemble
        ms.find_graph_dict = graph
        return self

    def __exit__(self, *a):
        self.ms.ensemble_mcs, self.ms.find_graph_dict = self.saved


def real_find_stubbed(rows_spec, cells_for):
    """rows_spec: [(id, solved)]; returns (rows after find | None, error, captured tables)"""
    from synrbl.mcs_search import MCSSearch

    rows = [{"id": i, "solved": s, "reaction": "C>>C", "marker": k} for k, (i, s) in enumerate(rows_spec)]
    before = copy.deepcopy(rows)
    with Stubs(cells_for) as S:
        try:
            out = MCSSearch("id", n_jobs=1).find(rows)
            err = None
        except Exception as e:
            out, err = None, type(e).__name__
    return before, out, err, S.tables


def view_row(r):
    if "mcs" not in r:
        m = "absent"
    elif r["mcs"] is None:
        m = None
    else:
        m = {"id": r["mcs"].get("id"), "tag": "%s:%s" % (r["mcs"].get("_c"), r["mcs"].get("_r"))}
    return {"mcs": m, "issue": r.get("issue")}


def tables_op(rows_spec, tables):
    return {
        "op": "mcsFind",
        "rows": [{"id": i, "solved": bool(s)} for i, s in rows_spec],
        "tables": [
            [{"id": d["id"], "sizes": [smarts_atoms(p) for p in d["mcs_results"]], "tag": "%s:%s" % (d["_c"], d["_r"]),
              "issue": d["issue"]} for d in col]
            for col in (tables or [])
        ],
    }


def stmt_attach(ctx, rows_spec, before, out, tables, where):
    """independent statement (ids of the unsolved rows distinct): solved rows untouched; an unsolved row carries a
    record iff its own column has a retained record, and then it is a record of its own position and id"""
    ids = [i for i, s in rows_spec if not s]
    if len(set(ids)) != len(ids):
        return True
    if out is None or len(out) != len(rows_spec):
        ctx.violation("rows-lost-in-search-stage", rows_spec, "%s: %s" % (where, None if out is None else len(out)), SITE_FIND)
        return False
    seen = set()
    pos = 0
    for k, ((rid, solved), b, r) in enumerate(zip(rows_spec, before, out)):
        if solved:
            if r != b:
                ctx.violation("solved-row-touched-by-search-stage", rows_spec, "%s: row %d %s -> %s" % (where, k, b, r), SITE_FIND)
                return False
            continue
        m = r.get("mcs")
        if m is not None:
            tag = (m.get("_c"), m.get("_r"))
            if m.get("id") != rid or m.get("_r") != pos or tag in seen or tables[m["_c"]][pos]["mcs_results"] != m.get("mcs_results"):
                ctx.violation("search-result-attached-to-wrong-row", rows_spec,
                              "%s: row %d (id %s, position %d among the unsolved) carries record %s of id %s" % (where, k, rid, pos, tag, m.get("id")),
                              SITE_FIND)
                return False
            seen.add(tag)
            if r.get("issue") != m.get("issue"):
                ctx.violation("issue-not-from-own-record", rows_spec, "%s: row %d" % (where, k), SITE_FIND)
                return False
        else:
            if r.get("issue") != "No MCS identified.":
                ctx.violation("unsolved-row-without-data-and-reason", rows_spec, "%s: row %d issue=%r" % (where, k, r.get("issue")), SITE_FIND)
                return False
        pos += 1
    return True


def attach_cases(ctx):
    rng = ctx.rng
    thorough = ctx.tier == "thorough"
    cases = []
    menu = [[2, 1], [3], [1, 2], [], [0], ("failed", "MCS identification failed. x"), [1], [0, 2]]
    # hand-placed
    cases.append(([], {}))
    cases.append(([("0", True), ("1", True)], {}))
    cases.append(([("0", False)], {(0, 0): [2], (0, 1): [3], (0, 2): [1]}))
    cases.append(([("0", False), ("1", True), ("2", False), ("3", False)],
                  {(0, 0): [2], (0, 1): [2, 1], (0, 2): [1], (1, 0): [], (1, 1): [], (1, 2): [0], (2, 0): [1], (2, 1): [1], (2, 2): [1]}))
    # duplicate ids: among the unsolved rows, and between a solved and an unsolved row
    cases.append(([("7", False), ("7", False)], {(0, 0): [1], (1, 0): [2]}))
    cases.append(([("7", False), ("8", False), ("7", True)], {(0, 0): [1], (1, 1): [2]}))
    cases.append(([("7", True), ("7", False), ("9", False)], {(0, 2): [3], (1, 0): [2]}))
    if thorough:
        for n in range(1, 5):
            for solved in itertools.product([False, True], repeat=n):
                k = solved.count(False)
                for win in itertools.product([None, 0, 1, 2], repeat=k):
                    spec = {}
                    for p, w in enumerate(win):
                        for c in range(3):
                            spec[(p, c)] = [] if w is None else ([3] if c == w else [1])
                    cases.append(([(str(i), s) for i, s in enumerate(solved)], spec))
                    if n >= 2 and k >= 1:
                        cases.append(([(str(i % 2), s) for i, s in enumerate(solved)], spec))
    for _ in range(120 if not thorough else 600):
        n = rng.randint(1, 7)
        mode = rng.random()
        if mode < 0.7:
            ids = [str(i) for i in range(n)]
        elif mode < 0.85:
            ids = [str(rng.randint(0, max(1, n // 2))) for _ in range(n)]
        else:
            ids = [rng.choice(["a", "b", "10", "x y"]) + str(i // 2) for i in range(n)]
        rows_spec = [(ids[i], rng.random() < 0.35) for i in range(n)]
        k = sum(1 for _, s in rows_spec if not s)
        spec = {(p, c): rng.choice(menu) for p in range(k) for c in range(3)}
        cases.append((rows_spec, spec))
    return cases


def corr_attach(ctx):
    cases = attach_cases(ctx)
    ops, reals = [], []
    for rows_spec, spec in cases:
        before, out, err, tables = real_find_stubbed(rows_spec, lambda pos, rid, c, spec=spec: spec.get((pos, c), []))
        reals.append((before, out, err, tables))
        ops.append(tables_op(rows_spec, tables))
    ans = ctx.driver(ops)
    for (rows_spec, spec), (before, out, err, tables), a in zip(cases, reals, ans):
        ctx.traces += 1
        distinct = len({i for i, s in rows_spec if not s}) == sum(1 for _, s in rows_spec if not s)
        ctx.case(("attach", json.dumps(rows_spec), json.dumps(sorted((str(k), str(v)) for k, v in spec.items()))),
                 nontrivial=any(not s for _, s in rows_spec))
        ctx.count("attach:distinct-ids" if distinct else "attach:duplicate-ids")
        model = "raises" if "raises" in a else a["rows"]
        impl = "raises:%s" % err if out is None else [view_row(r) for r in out]
        if (model == "raises") != (out is None) or (out is not None and model != impl):
            ctx.corr_break("McsSelect.findT", {"rows": rows_spec, "tables": tables_op(rows_spec, tables)["tables"]}, model, impl)
        elif out is not None:
            stmt_attach(ctx, rows_spec, before, out, tables, "stubbed searches")
    ctx.sample({"attach_rows": cases[3][0], "after_find": [view_row(r) for r in reals[3][1]]})
    # `attach` on explicit result lists against a direct transcription of lines 90-96 is not needed: the real loop
    # is exercised above; here the model's own two entry points are cross-checked (findT = getLargest + pick + attach)
    ops = []
    keep = []
    for (rows_spec, spec), (before, out, err, tables) in list(zip(cases, reals))[:300]:
        if not tables or out is None:
            continue
        sel = real_largest(tables)[0] or {}
        results = [[tables[c][r]["id"], "%s:%s" % (c, r), tables[c][r]["issue"]] for r, c in sorted(sel.items())]
        ops.append({"op": "mcsAttach", "rows": [{"id": i, "solved": bool(s)} for i, s in rows_spec], "results": results})
        keep.append((rows_spec, out))
    for (rows_spec, out), a in zip(keep, ctx.driver(ops)):
        # `attach` alone starts from the untouched rows: a row it does not write to stays "absent"
        impl = ["absent" if s else (None if r.get("mcs") is None else "%s:%s" % (r["mcs"]["_c"], r["mcs"]["_r"]))
                for (i, s), r in zip(rows_spec, out)]
        model = None if "raises" in a else [x["mcs"] if x["mcs"] != "absent" else ("absent" if s else None)
                                             for (i, s), x in zip(rows_spec, a["rows"])]
        if model != impl:
            ctx.corr_break("McsSelect.attach", rows_spec, model, impl)


# ------------------------------------------------------------------------------------------------ 3. alignment
class FakeMCS:
    canceled = True
    numAtoms = 0
    numBonds = 0
    smartsString = ""


class LoopFaults:
    """in-process wrappers around rdFMCS.FindMCS (as mcs_graph_detector calls it) and
    SubstructureAnalyzer.identify_optimal_substructure: the k-th call is cancelled / raises; every call is logged"""

    def __init__(self, cancel=(), raise_find=(), raise_remove=()):
        self.cancel, self.raise_find, self.raise_remove = set(cancel), set(raise_find), set(raise_remove)
        self.calls = []  # (k, reactant smiles, numAtoms, smarts, what)
        self.removes = 0

    def __enter__(self):
        from rdkit import Chem
        import synrbl.SynMCSImputer.SubStructure.mcs_graph_detector as mgd
        from synrbl.SynMCSImputer.SubStructure.substructure_analyzer import SubstructureAnalyzer

        self.mgd = mgd
        self.SA = SubstructureAnalyzer
        self.orig_find = mgd.rdFMCS.FindMCS
        self.orig_rm = SubstructureAnalyzer.identify_optimal_substructure
        F = self

        def find(mols, *a, **k):
            n = len(F.calls) + 1
            smi = canon(Chem.MolToSmiles(Chem.Mol(mols[0])))
            if n in F.raise_find:
                F.calls.append((n, smi, None, None, "raise"))
                raise RuntimeError("injected FindMCS failure")
            res = F.orig_find(mols, *a, **k)
            if n in F.cancel:
                F.calls.append((n, smi, None, None, "cancel"))
                return FakeMCS()
            F.calls.append((n, smi, res.numAtoms, res.smartsString, "cancel" if res.canceled else "ok"))
            return res

        def rm(self_, *a, **k):
            F.removes += 1
            if F.removes in F.raise_remove:
                raise RuntimeError("injected removal failure")
            return F.orig_rm(self_, *a, **k)

        mgd.rdFMCS.FindMCS = find
        SubstructureAnalyzer.identify_optimal_substructure = rm
        return self

    def __exit__(self, *a):
        self.mgd.rdFMCS.FindMCS = self.orig_find
        self.SA.identify_optimal_substructure = self.orig_rm


MCIS = dict(RingMatchesRingOnly=True, CompleteRingsOnly=True, method="MCIS", sort="MCIS", ignore_bond_order=True)


def reaction_dict(rxn, rid="0"):
    r, p = rxn.split(">>")
    rc, pc = chem.carbon_count(r), chem.carbon_count(p)
    return {"id": rid, "reaction": rxn, "reactants": r, "products": p,
            "carbon_balance_check": "balanced" if rc == pc else ("products" if rc > pc else "reactants")}


def richer_side(d):
    return d["reactants"] if d["carbon_balance_check"] in ("products", "balanced") else d["products"]


def run_loop_case(rxn, cancel=(), raise_find=(), raise_remove=()):
    """fit + single_mcs of one MCIS condition under the given faults"""
    from rdkit import Chem
    from synrbl.SynMCSImputer.SubStructure.mcs_graph_detector import MCSMissingGraphAnalyzer
    from synrbl.SynMCSImputer.SubStructure.mcs_process import single_mcs

    d = reaction_dict(rxn)
    out = {"fit_error": None}
    with LoopFaults(cancel, raise_find, raise_remove) as F:
        try:
            mcs_list, sorted_parents, mol_list, _ = MCSMissingGraphAnalyzer.fit(d, timeout=1, **MCIS)
            out["mcs_list"] = [None if m is None else Chem.MolToSmarts(m) for m in mcs_list]
            out["sorted"] = [canon(Chem.MolToSmiles(m)) for m in sorted_parents]
            out["mols"] = [Chem.MolToSmiles(m) for m in mol_list]
        except Exception as e:
            out["fit_error"] = "%s: %s" % (type(e).__name__, e)
        calls1, rm1 = list(F.calls), F.removes
    with LoopFaults(cancel, raise_find, raise_remove) as F:
        data = {"id": d["id"], "mcs_results": [], "sorted_reactants": [], "issue": ""}
        out["entry"] = single_mcs(d, data, timeout=1, **MCIS)
    out["calls"] = calls1
    out["removes"] = rm1
    return d, out


def model_loop_op(d, out):
    """translate the logged calls into the model's inputs: reactant i = i-th molecule of the richer side"""
    from rdkit import Chem

    toks = richer_side(d).split(".")
    n = len(toks)
    smis = [canon(t) for t in toks]
    first, second = out["calls"][:n], out["calls"][n:]
    pre = [None if c[4] != "ok" else c[2] for c in first]
    return smis, pre, second


def corr_loop(ctx):
    """every single cancellation / exception position for a handful of reactions; the model predicts the order of the
    molecules, where the placeholders sit and what single_mcs records"""
    from rdkit import Chem

    thorough = ctx.tier == "thorough"
    rxns = LOOP_REACTIONS if thorough else LOOP_REACTIONS[:3]
    for rxn in rxns:
        d0 = reaction_dict(rxn)
        n = len(richer_side(d0).split("."))
        base_d, base = run_loop_case(rxn)
        plans = [((), (), ())]
        for k in range(1, 2 * n + 1):
            plans.append(((k,), (), ()))
            plans.append(((), (k,), ()))
        for k in range(1, n + 1):
            plans.append(((), (), (k,)))
        if thorough:
            for a, b in itertools.combinations(range(n + 1, 2 * n + 1), 2):
                plans.append(((a, b), (), ()))
                plans.append(((a,), (b,), ()))
        ops, outs = [], []
        for cancel, rfind, rrem in plans:
            d, out = run_loop_case(rxn, cancel, rfind, rrem)
            if out["fit_error"] is not None and not (set(rfind) & set(range(1, n + 1))):
                ctx.corr_break("McsSelect.searchEntry:fit-raised", {"reaction": rxn, "plan": [cancel, rfind, rrem]}, "fit returns", out["fit_error"])
                continue
            if out["fit_error"] is not None:
                # an exception in the first loop is not guarded inside fit: single_mcs catches it
                e = out["entry"]
                ctx.case(("loop", rxn, str((cancel, rfind, rrem))))
                if e["mcs_results"] or e["sorted_reactants"] or not e["issue"].startswith("MCS identification failed."):
                    ctx.violation("failed-search-leaves-data", {"reaction": rxn, "raise_on_call": list(rfind)}, str(e), SITE_LOOP)
                continue
            smis, pre, second = model_loop_op(d, out)
            # reactants are distinguished by position; identical molecules share their outcome only if logged equal
            outcomes = []
            queue = collections.defaultdict(list)
            rm_seen = 0
            for c in second:
                if c[4] == "ok":
                    rm_seen += 1
                    kind = "raisedAfter" if rm_seen in rrem else "found"
                else:
                    kind = {"raise": "raisedBefore", "cancel": "cancelled"}[c[4]]
                queue[c[1]].append(kind)
            for s in smis:
                outcomes.append(queue[s].pop(0) if queue[s] else "cancelled")
            ops.append({"op": "mcsLoop", "pre": pre, "outcomes": outcomes})
            outs.append((rxn, (cancel, rfind, rrem), d, out, smis, second))
        for (rxn_, plan, d, out, smis, second), a in zip(outs, ctx.driver(ops)):
            ctx.traces += 1
            ctx.case(("loop", rxn_, str(plan)), nontrivial=bool(plan[0] or plan[1] or plan[2]))
            ctx.count("loop:" + ("plain" if not any(plan) else "cancel" if plan[0] and not plan[1] else "raise" if plan[1] else "raise-after-append"))
            m_sorted = [smis[i] for i in a["sorted"]]
            m_shape = [x is not None for x in a["mcsList"]]
            i_shape = [x is not None for x in out["mcs_list"]]
            e = out["entry"]
            m_entry = (len(a["entry"]["mcsResults"]), [smis[i] for i in a["entry"]["sortedReactants"]],
                       a["entry"]["issue"])
            i_issue = e["issue"]
            for prefix in ("MCS identification failed.",):
                if i_issue.startswith(prefix):
                    i_issue = prefix
            i_entry = (len(e["mcs_results"]), [canon(s) for s in e["sorted_reactants"]], i_issue)
            if m_sorted != out["sorted"] or m_shape != i_shape or m_entry != i_entry:
                ctx.corr_break("McsSelect.searchEntry", {"reaction": rxn_, "cancel": plan[0], "raise_find": plan[1], "raise_remove": plan[2]},
                               {"sorted": m_sorted, "mcs_list_shape": m_shape, "entry": m_entry},
                               {"sorted": out["sorted"], "mcs_list_shape": i_shape, "entry": i_entry})
                continue
            stmt_loop(ctx, rxn_, plan, d, out, second)
    ctx.sample({"alignment_case": CANCEL_WITNESS, "cancelled_call": 5})


def stmt_loop(ctx, rxn, plan, d, out, second):
    """independent statement at the two levels: what `fit` returns when no removal step raised, what single_mcs records"""
    wit = {"reaction": rxn, "cancel_calls": list(plan[0]), "raise_in_FindMCS_calls": list(plan[1]), "raise_in_removal_calls": list(plan[2])}
    own = collections.defaultdict(list)
    for c in second:
        own[c[1]].append(norm_smarts(c[3]))
    if not plan[2]:
        if len(out["mcs_list"]) != len(out["sorted"]):
            ctx.violation("mcs-list-not-aligned-with-molecules", wit,
                          "fit returns %d patterns %s for %d molecules %s" % (len(out["mcs_list"]), out["mcs_list"], len(out["sorted"]), out["sorted"]), SITE_LOOP)
            return False
        for p, s in zip(out["mcs_list"], out["sorted"]):
            if p is not None and p != "" and not contains(s, p):
                ctx.violation("pattern-attributed-to-wrong-molecule", wit, "pattern %s is not contained in %s" % (p, s), SITE_LOOP)
                return False
    e = out["entry"]
    if len(e["mcs_results"]) != len(e["sorted_reactants"]):
        ctx.violation("mcs-list-not-aligned-with-molecules", wit,
                      "single_mcs records %s for %s (issue %r)" % (e["mcs_results"], e["sorted_reactants"], e["issue"]), SITE_LOOP)
        return False
    for p, s in zip(e["mcs_results"], e["sorted_reactants"]):
        if p and not contains(s, p):
            ctx.violation("pattern-attributed-to-wrong-molecule", wit, "recorded pattern %s is not contained in %s" % (p, s), SITE_LOOP)
            return False
        if norm_smarts(p) not in own.get(canon(s), [norm_smarts(p)]):
            ctx.violation("pattern-attributed-to-wrong-molecule", wit, "recorded pattern %s was not found for %s" % (p, s), SITE_LOOP)
            return False
    if e["issue"] and (e["mcs_results"] or e["sorted_reactants"]):
        ctx.violation("failed-search-leaves-data", wit, str(e), SITE_LOOP)
        return False
    if not e["issue"]:
        want = collections.Counter(canon(t) for t in richer_side(d).split("."))
        if collections.Counter(canon(s) for s in e["sorted_reactants"]) != want:
            ctx.violation("molecule-list-is-not-the-carbon-richer-side", wit, "%s vs %s" % (e["sorted_reactants"], dict(want)), SITE_LOOP)
            return False
    return True


# ------------------------------------------------------------------------------------------------ 4. real searches
_balancers = {}


def balancer(n_jobs):
    from synrbl import Balancer

    if n_jobs not in _balancers:
        _balancers[n_jobs] = Balancer(n_jobs=n_jobs)
    return _balancers[n_jobs]


def prepare_rows(rxns, n_jobs=8):
    """the rows exactly as Balancer hands them to MCSSearch.find (balancing.py:__run_valid_pipeline)"""
    from synrbl.preprocess import preprocess

    b = balancer(n_jobs)
    rows = preprocess([{"reaction": r} for r in rxns], "reaction", "id", "solved", "input_reaction", remove_aam=True)
    b.input_validator.check(rows)
    b.rb_method.run(rows)
    b.rb_validator.check(rows, override_unsolved=True)
    return rows


class Capture:
    """record what ensemble_mcs returns and what get_largest_condition retains inside MCSSearch.find"""

    def __enter__(self):
        import synrbl.mcs_search as ms

        self.ms = ms
        self.saved = (ms.ensemble_mcs, ms.ExtractMCS.__dict__["get_largest_condition"])
        self.todo = None
        self.tables = None
        self.largest = None
        self.snapshot = None
        C = self
        orig_ens = ms.ensemble_mcs
        orig_sel = ms.ExtractMCS.get_largest_condition

        def ens(data, *a, **k):
            C.todo = [d["id"] for d in data]
            res = orig_ens(data, *a, **k)
            C.tables = res
            return res

        def sel(*conds):
            C.snapshot = copy.deepcopy(conds)  # as read by the selection (a zombie search thread may write later)
            res = orig_sel(*conds)
            C.largest = res
            return res

        ms.ensemble_mcs = ens
        ms.ExtractMCS.get_largest_condition = staticmethod(sel)
        return self

    def __exit__(self, *a):
        self.ms.ensemble_mcs = self.saved[0]
        self.ms.ExtractMCS.get_largest_condition = self.saved[1]


def real_find(rows, n_jobs):
    b = balancer(n_jobs)
    b.mcs_search.n_jobs = n_jobs
    before = copy.deepcopy(rows)
    with Capture() as C:
        try:
            out = b.mcs_search.find(rows)
            err = None
        except Exception as e:
            out, err = None, "%s: %s" % (type(e).__name__, e)
    return before, out, err, C


def corr_real_find(ctx, before, out, err, C, label):
    """the model on the captured tables vs the rows the real find returned"""
    if C.tables is None:
        tables = []
    else:
        tables = [[{"id": d["id"], "sizes": [smarts_atoms(p) for p in d["mcs_results"]], "tag": "%d:%d" % (c, r), "issue": d["issue"]}
                   for r, d in enumerate(col)] for c, col in enumerate(C.snapshot if getattr(C, "snapshot", None) else C.tables)]
    op = {"op": "mcsFind", "rows": [{"id": r["id"], "solved": bool(r["solved"])} for r in before], "tables": tables}
    a = ctx.driver([op])[0]
    ctx.traces += 1
    if out is None:
        if "raises" not in a:
            ctx.corr_break("McsSelect.findT(real searches):" + label, {"rows": op["rows"]}, "returns rows", err)
        return
    idx = {}
    for c, col in enumerate(tables):
        for r, d in enumerate(col):
            idx[(c, r)] = (C.snapshot if getattr(C, "snapshot", None) else C.tables)[c][r]
    impl, model = [], []
    for r, m in zip(out, a.get("rows", [])):
        if "mcs" not in r:
            impl.append(("absent", r.get("issue")))
        elif r["mcs"] is None:
            impl.append((None, r.get("issue")))
        else:
            impl.append(((r["mcs"].get("id"), r["mcs"].get("mcs_results"), r["mcs"].get("sorted_reactants")), r.get("issue")))
        if m["mcs"] in ("absent", None):
            model.append((m["mcs"], m["issue"] if m["mcs"] is None else None))
        else:
            c, rr = (int(x) for x in m["mcs"]["tag"].split(":"))
            d = idx[(c, rr)]
            model.append(((m["mcs"]["id"], d["mcs_results"], d["sorted_reactants"]), m["issue"]))
    # the model does not know the issue a solved/absent row had before
    impl = [(x[0], x[1] if x[0] != "absent" else None) for x in impl]
    if "raises" in a or impl != model:
        bad = next((i for i, (x, y) in enumerate(zip(impl, model)) if x != y), None)
        ctx.corr_break("McsSelect.findT(real searches):" + label, {"rows": op["rows"], "first_differing_row": bad},
                       "raises" if "raises" in a else model[bad] if bad is not None else len(model),
                       impl[bad] if bad is not None else len(impl))


def table_entry(C, c, rid):
    col = (C.snapshot if getattr(C, "snapshot", None) else C.tables)[c]
    hits = [d for d in col if d["id"] == rid]
    return hits[0] if len(hits) == 1 else None


def stmt_real(ctx, before, out, C, label, faulted=()):
    """the property, stated independently of the model, on rows returned by the real MCSSearch.find"""
    if out is None or len(out) != len(before):
        ctx.violation("rows-lost-in-search-stage", [r["reaction"] for r in before], label, SITE_FIND)
        return False
    ok = True
    unsolved_ids = [r["id"] for r in before if not r["solved"]]
    if C.tables is not None:
        # the condition tables: one record per reaction handed in, in that order, carrying its id
        for c, col in enumerate(C.tables):
            if [d["id"] for d in col] != C.todo or C.todo != unsolved_ids:
                ctx.violation("condition-table-not-aligned-with-reactions", {"condition": c, "ids": [d["id"] for d in col], "reactions": unsolved_ids}, label, SITE_FIND)
                return False
    for b, r in zip(before, out):
        wit = {"reaction": b["reaction"], "id": b["id"], "context": label}
        if b["solved"]:
            ctx.case(("real", label, b["reaction"], "solved"), nontrivial=False)
            if r != b:
                ctx.violation("solved-row-touched-by-search-stage", wit, "%s -> %s" % (b, r), SITE_FIND)
                ok = False
            continue
        m = r.get("mcs")
        totals, firsts, lens_ok = [], [], True
        for c in range(len(C.tables or [])):
            e = table_entry(C, c, b["id"])
            if e is None:
                ctx.violation("condition-table-not-aligned-with-reactions", wit, "condition %d has no unique record for id %s" % (c, b["id"]), SITE_FIND)
                return False
            totals.append(sum(smarts_atoms(p) for p in e["mcs_results"]))
            firsts.append(smarts_atoms(e["mcs_results"][0]) if e["mcs_results"] else 0)
            ctx.count("real:records")
            if firsts[-1] == 0 and totals[-1] > 0:
                ctx.count("law-broken:first-pattern-empty-but-total-positive")
            # every record of every condition is aligned and attributed
            if not stmt_record(ctx, b, e, wit, "condition %d" % c):
                ok = False
                lens_ok = False
        ctx.case(("real", label, b["reaction"], b["id"] in faulted), nontrivial=m is not None)
        if m is None:
            ctx.count("real:rows-without-result")
            if r.get("issue") != "No MCS identified.":
                ctx.violation("unsolved-row-without-data-and-reason", wit, "issue=%r" % r.get("issue"), SITE_FIND)
                ok = False
            if totals and max(totals) > 0 and any(f > 0 for t, f in zip(totals, firsts) if t == max(totals)):
                ctx.violation("search-result-dropped", wit, "totals %s, first patterns %s, but the row carries no result" % (totals, firsts), SITE_FIND)
                ok = False
            continue
        ctx.count("real:rows-with-result")
        if m.get("id") != b["id"]:
            ctx.violation("search-result-attached-to-wrong-row", wit, "row carries the record of id %r" % m.get("id"), SITE_FIND)
            ok = False
            continue
        if not lens_ok or not stmt_record(ctx, b, m, wit, "row"):
            ok = False
            continue
        # the retained record is one of the condition records of this reaction, and the largest one
        mine = sum(smarts_atoms(p) for p in m["mcs_results"])
        cands = [c for c in range(len(totals)) if table_entry(C, c, b["id"])["mcs_results"] == m["mcs_results"]
                 and table_entry(C, c, b["id"])["sorted_reactants"] == m["sorted_reactants"]]
        if not cands:
            ctx.violation("retained-record-is-no-condition-record-of-this-reaction", wit, "%s" % m["mcs_results"], SITE_FIND)
            ok = False
            continue
        best = [c for c in range(len(totals)) if totals[c] == max(totals)]
        bf = max(firsts[c] for c in best)
        want = next(c for c in best if firsts[c] == bf)
        if mine != max(totals) or want not in cands:
            ctx.violation("retained-condition-is-not-the-largest", wit,
                          "totals %s, first patterns %s, retained total %d (conditions %s)" % (totals, firsts, mine, cands), SITE_SELECT)
            ok = False
        ctx.count("real:retained-condition-%d" % want)
        if r.get("issue") != m.get("issue"):
            ctx.violation("issue-not-from-own-record", wit, "row issue %r, record issue %r" % (r.get("issue"), m.get("issue")), SITE_FIND)
            ok = False
    return ok


def stmt_record(ctx, row, e, wit, what):
    """one search record against the reaction it claims to describe"""
    mr, sr = e["mcs_results"], e["sorted_reactants"]
    if len(mr) != len(sr):
        ctx.violation("mcs-list-not-aligned-with-molecules", wit, "%s: %d patterns %s for %d molecules %s" % (what, len(mr), mr, len(sr), sr), SITE_LOOP)
        return False
    if not sr:
        return True
    want = collections.Counter(canon(t) for t in richer_side(row).split("."))
    got = collections.Counter(canon(s) for s in sr)
    if got != want:
        ctx.violation("molecule-list-is-not-the-carbon-richer-side", wit, "%s: %s vs %s" % (what, sr, dict(want)), SITE_LOOP)
        return False
    for p, s in zip(mr, sr):
        if p and not contains(s, p):
            ctx.violation("pattern-attributed-to-wrong-molecule", wit, "%s: pattern %s is not contained in %s" % (what, p, s), SITE_LOOP)
            return False
        ctx.count("real:patterns-checked")
    return True


def corpus_sample(ctx, n, maxlen=130):
    rng = ctx.rng
    rx = [r for r in chem.corpus_reactions() if len(r) < maxlen]
    return rng.sample(rx, n)


def per_reaction(out):
    res = {}
    for r in out:
        if r.get("solved"):
            continue
        m = r.get("mcs")
        res.setdefault(r["input_reaction"], []).append(None if m is None else (tuple(m["mcs_results"]), tuple(m["sorted_reactants"])))
    return res


def unsolved_sample(ctx, n, n_jobs=8, maxlen=130):
    """n corpus reactions that reach the MCS stage plus a few that do not (they sit in between as solved rows)"""
    pool = corpus_sample(ctx, min(6 * n, 1500), maxlen)
    rows = prepare_rows(pool, n_jobs)
    todo = [p for p, r in zip(pool, rows) if not r["solved"]][:n]
    done = [p for p, r in zip(pool, rows) if r["solved"]][:max(3, n // 5)]
    return todo + done


def real_batches(ctx, n, n_jobs=8):
    rng = ctx.rng
    rxns = unsolved_sample(ctx, n, n_jobs) + [CANCEL_WITNESS, "CC(=O)Cl.OCC>>CC(=O)OCC", "CCO>>CC=O", "C>>C",
                                              "CC(=O)OCC.CCN.Brc1ccccc1>>CC(=O)NCCc1ccccc1"] + NO_HEAVY_ATOM_RIDERS
    rng.shuffle(rxns)
    rows = prepare_rows(rxns, n_jobs)
    ctx.count("real:rows-solved-before-search", sum(1 for r in rows if r["solved"]))
    before, out, err, C = real_find(rows, n_jobs)
    corr_real_find(ctx, before, out, err, C, "batch")
    stmt_real(ctx, before, out, C, "batch of %d" % len(rows))
    if out is None:
        return rxns, None
    ex = next((r for r in out if r.get("mcs")), None)
    if ex:
        ctx.sample({"reaction": ex["reaction"], "sorted_reactants": ex["mcs"]["sorted_reactants"], "mcs_results": ex["mcs"]["mcs_results"]})
    # the same reactions in another order, in two batches of different composition
    order = list(rxns)
    rng.shuffle(order)
    cut = len(order) // 3
    res2 = {}
    for part in (order[:cut], order[cut:]):
        if not part:
            continue
        rows2 = prepare_rows(part, n_jobs)
        b2, o2, e2, C2 = real_find(rows2, n_jobs)
        corr_real_find(ctx, b2, o2, e2, C2, "re-ordered")
        stmt_real(ctx, b2, o2, C2, "re-ordered batch of %d" % len(rows2))
        if o2 is None:
            return rxns, out
        for k, v in per_reaction(o2).items():
            res2.setdefault(k, []).extend(v)
    res1 = per_reaction(out)
    for k in res1:
        a, b = sorted(map(str, res1[k])), sorted(map(str, res2.get(k, [])))
        ctx.count("real:order-compared")
        if a != b:
            # MCS has wall-clock limits: is the reaction itself unstable?
            alone = []
            for _ in range(2):
                ra = prepare_rows([k], n_jobs)
                _, oa, _, _ = real_find(ra, n_jobs)
                alone.append(sorted(map(str, per_reaction(oa or []).get(k, []))))
            if alone[0] == alone[1] and (a[:1] != alone[0] or b[:1] != alone[0]) and len(a) == len(b) == 1:
                ctx.violation("search-result-depends-on-batch", k, "batch: %s; re-ordered: %s; alone: %s" % (a, b, alone[0]), SITE_FIND)
            else:
                ctx.count("real:nondeterministic-search")
    return rxns, out


def fault_runs(ctx):
    """in-process (n_jobs=1) runs under injected faults: searches that raise, a search that outlives the 2 s wait, RDKit
    calls cancelled inside the loops; the statement is evaluated on everything that survives"""
    import faults

    rng = ctx.rng
    thorough = ctx.tier == "thorough"
    rxns = [CANCEL_WITNESS, "CC(=O)OCC.CCN.Brc1ccccc1>>CC(=O)NCCc1ccccc1", "CCO>>CC=O", "CC(=O)Cl.OCC>>CC(=O)OCC"] + corpus_sample(ctx, 3 if not thorough else 8, 100)
    base_rows = prepare_rows(rxns, 1)
    ids = [r["id"] for r in base_rows if not r["solved"]]
    plans = [({(ids[0], c): "raise" for c in range(3)}, "all three conditions of one reaction raise"),
             ({(ids[0], 0): "raise", (ids[-1], 2): "raise"}, "two searches raise"),
             ({(ids[0], 0): "timeout"}, "one search outlives the wait (zombie thread)")]
    for _ in range(2 if not thorough else 25):
        s = {}
        for rid in rng.sample(ids, rng.randint(1, min(3, len(ids)))):
            for c in rng.sample(range(3), rng.randint(1, 2)):
                s[(rid, c)] = "raise"
        plans.append((s, "seeded raise pattern"))
    for search, label in plans:
        rows = copy.deepcopy(base_rows)
        with faults.Faults(search, {}) as F:
            before, out, err, C = real_find(rows, 1)
        ctx.count("faults:fired", len(F.fired))
        corr_real_find(ctx, before, out, err, C, "faults")
        stmt_real(ctx, before, out, C, "faults: " + label, faulted={k[0] for k in search})
    # RDKit's own cancellation inside the loops, through the whole stage: the k-th FindMCS call of the batch
    first = [r for r in base_rows if not r["solved"]][:2]
    ks = list(range(1, 13)) if thorough else [2, 5, 6, 9]
    for k in ks:
        rows = copy.deepcopy(first)
        with LoopFaults(cancel=(k,)) as LF:
            before, out, err, C = real_find(rows, 1)
        ctx.count("faults:cancelled-FindMCS-in-stage")
        corr_real_find(ctx, before, out, err, C, "cancel")
        stmt_real(ctx, before, out, C, "FindMCS call %d of the batch cancelled" % k)


# ------------------------------------------------------------------------------------------------ search / run
def search(ctx):
    """deeper hunt on the real code after an obligation or a correspondence broke"""
    save = ctx.tier
    ctx.tier = "thorough"
    try:
        kinds = cell_kinds(False)
        rng = ctx.rng
        tables = []
        rows3 = list(itertools.product(range(len(kinds)), repeat=3))
        rng.shuffle(rows3)
        part = rows3[:12000]
        tables.append([[kinds[t[c]] for t in part] for c in range(3)])
        for conds_cells in tables:
            conds = [[cell_dict(cell, c, r) for r, cell in enumerate(col)] for c, col in enumerate(conds_cells)]
            sel, err = real_largest(conds)
            if sel is not None:
                # row by row, so that the witness is one column
                for r in range(len(conds[0])):
                    one = [[c[r]] for c in conds]
                    for c, col in enumerate(one):
                        col[0] = dict(col[0], _r=0)
                    if not stmt_selection(ctx, one, {0: sel[r]} if r in sel else {}, "search"):
                        return
        # small tables of unequal lengths, 1-4 conditions: a decision for exactly the rows present in every table
        small = [[[[1]], []], [[[1], [2], [3]], [[2], [1]]], [[[2]], [[1], [3]], [[1]]]]
        for _ in range(400):
            small.append([[rng.choice(kinds) for _ in range(rng.randint(0, 3))] for _ in range(rng.randint(1, 4))])
        for conds_cells in small:
            conds = [[cell_dict(cell, c, r) for r, cell in enumerate(col)] for c, col in enumerate(conds_cells)]
            sel, err = real_largest(conds)
            if sel is None:
                ctx.violation("selection-raised", conds_cells, str(err), SITE_SELECT)
                return
            if not stmt_selection(ctx, conds, sel, "search (small tables)"):
                return
        if ctx.violations:
            return
        for rows_spec, spec in attach_cases(ctx):
            before, out, err, tables_ = real_find_stubbed(rows_spec, lambda pos, rid, c, spec=spec: spec.get((pos, c), []))
            if out is None:
                ids = [i for i, s in rows_spec if not s]
                if len(set(ids)) == len(ids):
                    ctx.violation("search-stage-raised", rows_spec, str(err), SITE_FIND)
                    return
                continue
            if not stmt_attach(ctx, rows_spec, before, out, tables_, "search"):
                return
        for rxn in LOOP_REACTIONS:
            n = len(richer_side(reaction_dict(rxn)).split("."))
            for k in range(1, 2 * n + 1):
                for plan in (((k,), (), ()), ((), (k,), ())):
                    d, out = run_loop_case(rxn, *plan)
                    if out["fit_error"] is None and not stmt_loop(ctx, rxn, plan, d, out, out["calls"][n:]):
                        return
        real_batches(ctx, 60)
        if not ctx.violations:
            fault_runs(ctx)
    finally:
        ctx.tier = save


def run(ctx):
    ctx.rule = (
        "selection: result tables of 1-4 conditions whose records are lists of SMARTS of chosen atom counts ([#6]-chains, "
        "'' and an unparsable string count 0), empty lists and failed/timed-out records; quick = 4 000 seeded columns of 3 "
        "conditions + all columns of 2 and 1 conditions over %d record kinds + edge tables (no condition, unequal lengths); "
        "thorough = every column of 3 conditions over the record kinds (exhaustive) and every table of <= 3 rows over a reduced "
        "alphabet (non-trivial = a record is retained; distinct by table). attachment: the real MCSSearch.find with table-driven "
        "search stubs on batches of 0-7 rows, solved rows in between, skipped rows, distinct / duplicate / odd ids (thorough: "
        "every solved pattern x winner pattern for <= 4 rows). alignment: the real fit + single_mcs with the k-th RDKit call "
        "cancelled or raising, every k (thorough: pairs). statement: seeded unsolved corpus reactions + specials through the "
        "real MCSSearch.find in one batch, re-ordered in two batches, under injected search faults and cancelled FindMCS calls; "
        "laws evaluated with RDKit on every record of every condition and on every row" % len(cell_kinds(False))
    )
    ctx.assumptions = [
        "what a maximum common substructure is, is RDKit's (rdFMCS / rdRascalMCES): the theorems quantify over every search "
        "oracle; on real results the check monitors that each reported pattern is contained in the molecule it is attributed to",
        "a pattern enters the selection only through ExtractMCS.get_num_atoms; joblib returns results in submission order "
        "(ensemble_mcs, calculate_total_number_atoms_mcs_parallel) — both exercised by the correspondence on every run",
        "ids of the unsolved rows are pairwise distinct (preprocess assigns str(position)); with duplicate ids the model and the "
        "code agree on what happens instead (the later row wins), see C10_witness_duplicate_ids",
        "C10_skips_iff_all_zero assumes that an empty first pattern means an empty result (counted when broken: "
        "law-broken:first-pattern-empty-but-total-positive)",
    ]
    ctx.gen_tables(needs=[])
    built = ctx.build([MODULE])
    drv = ctx.build_driver()
    if built:
        ctx.audit(MODULE)
    if drv:
        quick = ctx.tier == "quick"
        corr_selection(ctx)
        corr_attach(ctx)
        corr_loop(ctx)
        real_batches(ctx, 26 if quick else 400)
        fault_runs(ctx)
    return ctx.finish(search)
