"""C01 — a reaction reported as solved is balanced in every element and in charge."""
import pipeline
from _rowmachine import deep_search, prepare

MODULE = "SynRBLModel.Properties.C01"


def statement(ctx, tr):
    pipeline.stmt_c01(ctx, tr["out"])


def search(ctx):
    deep_search(ctx, statement)


def run(ctx):
    built, drv = prepare(
        ctx,
        MODULE,
        "shared traced run: seeded sample of the 5 032 validation reactions (whole set in the thorough tier) + 50 specials "
        "(redox pairs reaching every reagent template, Z>86, ions, placeholders, peroxides, atom maps), two batches, 12 workers; "
        "every row compared with the Lean row machine after each of the 11 stages; untraced runs of a seeded set under 5 "
        "configurations (default, caller-chosen column names with own ids, one worker with batches of 3, threshold 0.5, atom "
        "maps kept on fully mapped inputs); independent statement: RDKit composition by "
        "atomic number and formal charge of every solved row (non-trivial = solved by a method other than input-balanced; "
        "distinct by returned reaction)",
        ["truth = RDKit AddHs atom list read by atomic number and formal charge"],
    )
    if drv:
        tr = pipeline.workload_mix(ctx)
        pipeline.compare_trace(ctx, tr)
        if tr["error"] or tr["out"] is None:
            ctx.corr_break("Pipeline:run-raised", {"n": len(tr["inputs"])}, "model never raises", tr["error"])
        else:
            statement(ctx, tr)
            pipeline.each_config(ctx, lambda name, c: statement(ctx, c))
            ctx.sample({"input": tr["out"][-3]["input_reaction"], "returned": tr["out"][-3]["reaction"],
                        "solved_by": tr["out"][-3].get("solved_by")})
            ctx.sample({"stats": tr["stats"], "rows": len(tr["out"]), "wall_s": round(tr["wall"], 1)})
    return ctx.finish(search)
