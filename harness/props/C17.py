"""C17 — benchmark comparison ignores molecule order and SMILES spelling.

Three kinds of evidence per run:
* proof: `lake build SynRBLModel.Properties.C17` + axiom audit (sort invariance for all lists, order / spelling
  invariance and idempotence of the normal form, similarity 1 / symmetry / range);
* correspondence: the real `remove_stereo_chemistry`, `count_atoms`, `normalize_smiles`, `wc_similarity` against the Lean
  model fed with the RDKit answers recorded per token (canonical SMILES) and per difference pair (fingerprint similarity);
  the oracle laws the theorems assume are evaluated on every recorded answer;
* statement on the real code alone: every permutation / respelling of a stereo-free corpus reaction has the identical
  normal form and similarity exactly 1 for every method; similarity is symmetric and within [0, 1]; normalisation is
  idempotent; the benchmark command counts every reordered / respelled row as correct.
"""
import argparse
import inspect
import itertools
import json
import os
import re
import tempfile
from fractions import Fraction

import chem
from core import quiet

quiet()
MODULE = "SynRBLModel.Properties.C17"
CALL_NORM = "synrbl/SynUtils/chem_utils.py:normalize_smiles"
CALL_WC = "synrbl/SynUtils/chem_utils.py:wc_similarity"
CALL_CANON = "synrbl/SynUtils/chem_utils.py:canon_smiles"
REGRESSION = [("CCCO.CCOC>>CCCO", "CCOC.CCCO>>CCCO"), ("CCCO.CCOC>>CCOC.CCCO", "CCOC.CCCO>>CCCO.CCOC")]
# known finding, replayed on every run: an explicitly written hydrogen atom survives canon_smiles (sanitize=False)
MECH_EXPLICIT_H = "explicit-hydrogen-spelling-not-canonicalised"
EXPLICIT_H = [("CCO.[H]Cl>>CCCl.O", "CCO.Cl>>CCCl.O"), ("[H]C(=O)c1ccccc1.NCC>>CCN=Cc1ccccc1.O", "O=Cc1ccccc1.NCC>>CCN=Cc1ccccc1.O")]


def cu():
    import synrbl.SynUtils.chem_utils as m

    return m


def supported_methods():
    """the method strings `wc_similarity` compares against, read from the current source"""
    try:
        src = inspect.getsource(cu().wc_similarity)
        ms = re.findall(r"method\s*==\s*[\"']([^\"']+)[\"']", src)
        ms = list(dict.fromkeys(ms))
        if ms:
            return ms
    except Exception:
        pass
    return ["pathway", "ecfp", "ecfp_inv"]


# ------------------------------------------------------------------------------------------------ oracle
class Oracle:
    """RDKit answers, recorded by calling the functions the code calls: per molecule token
    `canon_smiles(remove_atom_mapping(t))`, per pair of difference SMILES the code's own `_fp`."""

    def __init__(self, identity=False):
        self.identity = identity
        self.canon = {}
        self.fp = {}
        self.fp_fallback = False

    def get_canon(self, t):
        if t not in self.canon:
            if self.identity:
                self.canon[t] = t
            else:
                m = cu()
                try:
                    self.canon[t] = m.canon_smiles(m.remove_atom_mapping(t))
                except Exception:
                    self.canon[t] = None
        return self.canon[t]

    @staticmethod
    def _mol(s):
        from rdkit import Chem
        import rdkit.Chem.rdmolfiles as rdmolfiles

        return Chem.RWMol() if s == "" else rdmolfiles.MolFromSmiles(s)

    def _fp_direct(self, method, ma, mb):
        import rdkit.Chem.AllChem as AllChem
        import rdkit.Chem.rdFingerprintGenerator as G
        import rdkit.DataStructs as DS

        if method == "pathway":
            g = AllChem.GetRDKitFPGenerator(maxPath=5, minPath=1)
            return DS.TanimotoSimilarity(g.GetFingerprint(ma), g.GetFingerprint(mb))
        if method == "ecfp":
            g = G.GetMorganGenerator(radius=2)
            return DS.DiceSimilarity(g.GetSparseCountFingerprint(ma), g.GetSparseCountFingerprint(mb))
        if method == "ecfp_inv":
            g = G.GetMorganGenerator(radius=2, atomInvariantsGenerator=G.GetMorganFeatureAtomInvGen())
            return DS.DiceSimilarity(g.GetSparseCountFingerprint(ma), g.GetSparseCountFingerprint(mb))
        raise ValueError(method)

    def get_fp(self, method, a, b):
        """Fraction (exact value of the float `_fp` returns) or None (raises)"""
        key = (method, a, b)
        if key in self.fp:
            return self.fp[key]
        m = cu()
        try:
            ma, mb = self._mol(a), self._mol(b)
        except Exception:
            ma = mb = None
        val = None
        if ma is not None and mb is not None:
            saved = None
            try:
                # reach the nested `_fp` of the real wc_similarity: with the two helpers stubbed the function returns
                # np.min([_fp(ma, mb), _fp(ma, mb)])
                saved = (m.normalize_smiles, m._get_diff_mol)
                m.normalize_smiles = lambda s: s
                m._get_diff_mol = lambda x, y: (ma, mb)
                val = m.wc_similarity("A>>B", "C>>D", method)
            except AttributeError:
                self.fp_fallback = True
                try:
                    val = self._fp_direct(method, ma, mb)
                except Exception:
                    val = None
            except Exception:
                val = None
            finally:
                if saved is not None:
                    m.normalize_smiles, m._get_diff_mol = saved
        self.fp[key] = None if val is None else Fraction(float(val))
        return self.fp[key]


def frac_json(f):
    return None if f is None else [f.numerator, f.denominator]


def run_model(ctx, orc, ops, method_of=None):
    """send ops to the driver, answering oracle misses with recorded/real answers (at most 6 rounds)"""
    out = [None] * len(ops)
    pending = list(range(len(ops)))
    for _ in range(6):
        if not pending:
            break
        ans = ctx.driver([ops[i] for i in pending])
        nxt = []
        for i, a in zip(pending, ans):
            if "error" in a:
                raise RuntimeError("driver: %s on %s" % (a["error"], json.dumps(ops[i])[:300]))
            miss = a.get("miss") or []
            miss_fp = a.get("miss_fp") or []
            if miss or miss_fp:
                for t in miss:
                    ops[i]["canon"].append([t, orc.get_canon(t)])
                for x, y in miss_fp:
                    ops[i]["fp"].append([x, y, frac_json(orc.get_fp(ops[i]["method"], x, y))])
                nxt.append(i)
            else:
                out[i] = a
        pending = nxt
    if pending:
        raise RuntimeError("oracle misses did not converge: %s" % json.dumps(ops[pending[0]])[:300])
    return out


def real_normalize(s):
    try:
        return cu().normalize_smiles(s)
    except Exception:
        return None


def real_wc(a, b, method):
    """Fraction of the returned number, or None if the call raises"""
    try:
        v = cu().wc_similarity(a, b, method)
    except Exception:
        return None
    return v


# ------------------------------------------------------------------------------------------------ generators
def stereo_free(r):
    return not any(c in r for c in "@/\\")


def unmapped_sides(r):
    """[[tokens of the educt side], [tokens of the product side]] with atom maps removed by RDKit; None if a token
    does not parse"""
    sides = []
    parts = r.split(">>")
    if len(parts) != 2:
        return None
    for side in parts:
        toks = []
        for t in side.split("."):
            u = chem.strip_maps(t)
            if not u or "." in u:
                return None
            toks.append(u)
        sides.append(toks)
    return sides


def mapped_sides(r):
    parts = r.split(">>")
    if len(parts) != 2:
        return None
    return [side.split(".") for side in parts]


def mk(sides):
    return ">>".join(".".join(s) for s in sides)


def respell(rng, tok, kind):
    """an equivalent spelling of one molecule, written by RDKit from the same molecule"""
    from rdkit import Chem

    m = Chem.MolFromSmiles(tok)
    if m is None:
        return None
    try:
        if kind == "random":
            return list(Chem.MolToRandomSmilesVect(m, 1, randomSeed=rng.randrange(1, 2**31 - 1)))[0]
        if kind == "kekule":
            k = Chem.Mol(m)
            Chem.Kekulize(k, clearAromaticFlags=True)
            return Chem.MolToSmiles(k, kekuleSmiles=True)
        if kind == "rooted":
            return Chem.MolToSmiles(m, rootedAtAtom=rng.randrange(m.GetNumAtoms()), canonical=False)
        if kind == "explicitH":
            return Chem.MolToSmiles(m, allHsExplicit=True)
    except Exception:
        return None
    return None


RESPELL_KINDS = ["random", "random", "kekule", "rooted", "explicitH"]


def side_perms(rng, toks, cap):
    """all orderings for at most 5 tokens (capped by sampling when more than `cap`), sampled shuffles beyond"""
    n = len(toks)
    if n <= 1:
        return [list(toks)]
    if n <= 5:
        ps = [list(p) for p in itertools.permutations(toks)]
        if len(ps) > cap:
            ps = [ps[0], ps[-1]] + rng.sample(ps[1:-1], cap - 2)
        return ps
    out = [list(toks), list(reversed(toks))]
    for _ in range(max(0, cap - 2)):
        p = list(toks)
        rng.shuffle(p)
        out.append(p)
    return out


def variants_by_order(rng, sides, cap):
    """every ordering of one side with the other fixed, plus joint random orderings"""
    out = []
    pe, pp = side_perms(rng, sides[0], cap), side_perms(rng, sides[1], cap)
    for p in pe:
        out.append([p, sides[1]])
    for p in pp:
        out.append([sides[0], p])
    for _ in range(min(cap, len(pe) * len(pp)) // 4):
        out.append([rng.choice(pe), rng.choice(pp)])
    seen, uniq = set(), []
    for v in out:
        k = mk(v)
        if k not in seen:
            seen.add(k)
            uniq.append(v)
    return uniq


def variants_by_spelling(rng, sides, n):
    out = []
    for _ in range(n):
        v = []
        ok = True
        for side in sides:
            vs = []
            for t in side:
                s = respell(rng, t, rng.choice(RESPELL_KINDS))
                if s is None or "." in s:
                    ok = False
                    break
                vs.append(s)
            if not ok:
                break
            rng.shuffle(vs) if rng.random() < 0.5 else None
            v.append(vs)
        if ok:
            out.append(v)
    return out


def anagram_groups(limit_reactions=None):
    """canonical corpus molecules that agree on (count_atoms, character sum) but are different strings"""
    m = cu()
    groups = {}
    mols = chem.unmapped_corpus_molecules()
    for t in mols:
        if not stereo_free(t) or "." in t:
            continue
        groups.setdefault((m.count_atoms(t), sum(ord(c) for c in t)), []).append(t)
    return [sorted(v) for v in groups.values() if len(v) > 1]


def gen_strings(rng, n):
    """random text for the pure-Python pieces (ASCII: the model's `\\w` is ASCII)"""
    frags = ["C", "N", "O", "c", "n", "o", "Cl", "Br", "B", "I", "F", "P", "S", "[C@H]", "[C@@H]", "[C@]", "[C@@]", "@",
             "[", "]", "H", "[nH]", "(", ")", "=", "#", "1", "2", ".", ".", ">>", ">", ":1]", "[NH4+]", "[O-]", "_",
             "[13CH3@@H2]", "[C@H:1]", "[Si@H]", "[a@b]", "[@H]", "[C@", "@H]", "[C_1@@x9]", "[C@H][C@@H]", "[[C@H]]", "/", "\\", ""]
    out = []
    for _ in range(n):
        k = rng.randint(0, 12)
        out.append("".join(rng.choice(frags) for _ in range(k)))
    return out


def gen_token_lists(rng, n, groups):
    """token lists with many key ties: anagram isomers, duplicates, prefixes, non-ASCII code points"""
    base = ["CCCO", "CCOC", "COCC", "OCCC", "CC", "C", "", "CCO", "OCC", "c1ccccc1", "Cc1ccccc1", "ClCCl", "BrC", "CBr", "[Na+]",
            "[Cl-]", "O", "N", "CN", "NC", "C#N", "N#C", "CC(C)O", "CC(O)C", "é", "Ω", "Cé", "CCé", "a", "b", "ab", "ba", "B", "A"]
    out = []
    for _ in range(n):
        k = rng.randint(0, 7)
        pool = base + (rng.choice(groups) if groups and rng.random() < 0.5 else [])
        out.append([rng.choice(pool) for _ in range(k)])
    return out


# ------------------------------------------------------------------------------------------------ correspondence
def corr_parts(ctx, strings, toklists):
    """regex scanners, character sum and the sort against CPython / the repository's own functions.
    The real sort is exercised *through* normalize_smiles with the RDKit kernel stubbed by the identity."""
    m = cu()
    ops = [{"op": "normParts", "s": s, "toks": []} for s in strings] + [{"op": "normParts", "s": "", "toks": t} for t in toklists]
    ans = ctx.driver(ops)
    bad = 0
    for s, a in zip(strings, ans):
        real = {"rmStereo": m.remove_stereo_chemistry(s), "countAtoms": m.count_atoms(s), "ordSum": sum(ord(c) for c in s)}
        got = {k: a.get(k) for k in real}
        ctx.case(("parts", s), nontrivial=(real["rmStereo"] != s))
        if real != got:
            bad += 1
            if bad <= 3:
                ctx.corr_break("Normalize/parts", s, got, real)
    saved = (m.canon_smiles, m.remove_atom_mapping)
    try:
        m.canon_smiles = lambda x: x
        m.remove_atom_mapping = lambda x: x
        for toks, a in zip(toklists, ans[len(strings):]):
            usable = len(toks) >= 2 and all(("." not in t and ">>" not in t and "@" not in t) for t in toks)
            if not usable:
                continue
            real = m.normalize_smiles(".".join(toks)).split(".")
            ctx.case(("sort", tuple(toks)), nontrivial=len(set(toks)) > 1)
            ctx.count("sort:ties" if len({(m.count_atoms(t), sum(map(ord, t))) for t in toks}) < len(toks) else "sort:distinct-keys")
            if real != a.get("sorted"):
                bad += 1
                if bad <= 3:
                    ctx.corr_break("Normalize/sort", toks, a.get("sorted"), real)
    finally:
        m.canon_smiles, m.remove_atom_mapping = saved
    ctx.traces += len(ops)


def corr_identity_kernel(ctx, strings):
    """the whole recursion of normalize_smiles on arbitrary text, RDKit kernel stubbed by the identity on both sides"""
    m = cu()
    orc = Oracle(identity=True)
    saved = (m.canon_smiles, m.remove_atom_mapping)
    try:
        m.canon_smiles = lambda x: x
        m.remove_atom_mapping = lambda x: x
        real = [real_normalize(s) for s in strings]
    finally:
        m.canon_smiles, m.remove_atom_mapping = saved
    model = run_model(ctx, orc, [{"op": "normalize", "s": s, "canon": []} for s in strings])
    bad = 0
    for s, r, a in zip(strings, real, model):
        ctx.case(("idk", s), nontrivial=("." in s or ">>" in s))
        if r != a["out"]:
            bad += 1
            if bad <= 3:
                ctx.corr_break("Normalize/recursion(identity kernel)", s, a["out"], r)
    ctx.traces += len(strings)


def corr_normalize(ctx, orc, strings):
    real = [real_normalize(s) for s in strings]
    model = run_model(ctx, orc, [{"op": "normalize", "s": s, "canon": []} for s in strings])
    bad = 0
    for s, r, a in zip(strings, real, model):
        ctx.count("normalize:" + ("raises" if r is None else "ok"))
        if r != a["out"]:
            bad += 1
            if bad <= 3:
                ctx.corr_break("Normalize/normalize_smiles", s, a["out"], r)
    ctx.traces += len(strings)
    return real


def corr_wc(ctx, orc, triples):
    """triples (a, b, method)"""
    real = [real_wc(a, b, m) for a, b, m in triples]
    model = run_model(ctx, orc, [{"op": "wc", "e": a, "r": b, "method": m, "canon": [], "fp": []} for a, b, m in triples])
    bad = 0
    for (a, b, m), r, ans in zip(triples, real, model):
        rv = None if r is None else Fraction(float(r))
        mv = None if ans["sim"] is None else Fraction(ans["sim"][0], ans["sim"][1])
        ctx.count("wc:" + ("raises" if r is None else "one" if rv == 1 else "zero" if rv == 0 else "between"))
        if rv != mv:
            bad += 1
            if bad <= 3:
                ctx.corr_break("Normalize/wc_similarity", {"a": a, "b": b, "method": m}, ans["sim"], None if r is None else float(r))
    ctx.traces += len(triples)
    return real


def check_laws(ctx, orc, in_domain):
    """the hypotheses of the theorems, on every recorded oracle answer.  `in_domain(token)` restricts the canon laws to
    the tokens the property quantifies over (stereo-free)."""
    m = cu()
    fails = {"canon-idempotent": [], "canon-single-token": [], "fp-symmetric": [], "fp-range": [], "empty-mol": []}
    n = 0
    for t, c in list(orc.canon.items()):
        if c is None or not in_domain(t):
            continue
        n += 1
        if any(ch in c for ch in ".>@"):
            fails["canon-single-token"].append({"token": t, "canon": c})
        cc = orc.get_canon(c)
        if cc != c:
            fails["canon-idempotent"].append({"token": t, "canon": c, "canon_of_canon": cc})
    for (meth, a, b), v in list(orc.fp.items()):
        n += 1
        w = orc.get_fp(meth, b, a)
        if v != w:
            fails["fp-symmetric"].append({"method": meth, "a": a, "b": b, "ab": str(v), "ba": str(w)})
        if v is not None and not (0 <= v <= 1):
            fails["fp-range"].append({"method": meth, "a": a, "b": b, "value": float(v)})
    from rdkit import Chem

    for meth in {k[0] for k in orc.fp}:
        try:
            a = orc._fp_direct(meth, Chem.RWMol(), Chem.RWMol())
            b = orc._fp_direct(meth, Chem.MolFromSmiles(""), Chem.MolFromSmiles(""))
            if a != b:
                fails["empty-mol"].append({"method": meth, "RWMol()": a, "MolFromSmiles('')": b})
        except Exception:
            pass
    for law, fl in fails.items():
        ctx.obligation("oracle-law:" + law, "oracle-law", not fl, json.dumps(fl[:3]))
    ctx.count("oracle-answers-checked", n)


# ------------------------------------------------------------------------------------------------ statement (real code only)
def ref_canon(tok):
    """RDKit's canonical SMILES through the *sanitising* parser (explicitly written hydrogens are merged)"""
    from rdkit import Chem

    m = Chem.MolFromSmiles(tok)
    return None if m is None else Chem.MolToSmiles(m)


def only_explicit_h_differs(n0, nv):
    """the two normal forms agree side by side as multisets once every token is re-canonicalised by RDKit's sanitising
    parser, and every token that this changes carries an explicitly written hydrogen atom"""
    try:
        s0, sv = n0.split(">>"), nv.split(">>")
        if len(s0) != len(sv):
            return False
        changed = []
        for a, b in zip(s0, sv):
            ta, tb = a.split("."), b.split(".")
            ca, cb = [ref_canon(t) for t in ta], [ref_canon(t) for t in tb]
            if None in ca or None in cb or sorted(ca) != sorted(cb):
                return False
            changed += [t for t, c in zip(ta + tb, ca + cb) if t != c]
        return bool(changed) and all("[H]" in t for t in changed)
    except Exception:
        return False


def stmt_variants(ctx, base_sides, variants, methods, kind):
    """every variant has the base's normal form and similarity exactly 1 with it, for every method"""
    m = cu()
    base = mk(base_sides)
    n0 = real_normalize(base)
    if n0 is None:
        return True
    ok = True
    for v in variants:
        vs = mk(v)
        nv = real_normalize(vs)
        ctx.case((kind, base, vs), nontrivial=(vs != base))
        if nv != n0:
            sims = {meth: (None if (x := real_wc(base, vs, meth)) is None else float(x)) for meth in methods}
            detail = "normal forms %r vs %r; similarity %r" % (n0, nv, sims)
            if nv is not None and kind == "spelling" and only_explicit_h_differs(n0, nv):
                ctx.count("known:explicit-hydrogen")
                ctx.violation(MECH_EXPLICIT_H, {"reaction": base, "variant": vs}, detail, CALL_CANON)
            else:
                ctx.violation("normal-form-depends-on-" + kind, {"reaction": base, "variant": vs}, detail, CALL_NORM)
            ok = False
            continue
        for meth in methods:
            for x, y in ((base, vs), (vs, base)):
                s = real_wc(x, y, meth)
                if s is None or not (s == 1.0):
                    ctx.violation("identical-reactions-not-similarity-1", {"a": x, "b": y, "method": meth}, "similarity %r" % (s,), CALL_WC)
                    ok = False
    return ok


def stmt_idempotent(ctx, s):
    n = real_normalize(s)
    if n is None:
        return True
    n2 = real_normalize(n)
    ctx.case(("idem", s), nontrivial=(n != s))
    if n2 != n:
        ctx.violation("normalisation-not-idempotent", s, "once %r twice %r" % (n, n2), CALL_NORM)
        return False
    return True


def stmt_symmetric_range(ctx, a, b, methods):
    ok = True
    for meth in methods:
        x, y = real_wc(a, b, meth), real_wc(b, a, meth)
        ctx.case(("sym", a, b, meth), nontrivial=(x is not None and x != 1))
        if (x is None) != (y is None) or (x is not None and not (x == y)):
            ctx.violation("similarity-not-symmetric", {"a": a, "b": b, "method": meth}, "%r vs %r" % (x, y), CALL_WC)
            ok = False
        for v in (x, y):
            if v is not None and not (0 <= v <= 1):
                ctx.violation("similarity-out-of-range", {"a": a, "b": b, "method": meth}, "%r" % (v,), CALL_WC)
                ok = False
    return ok


def stmt_benchmark_counts(ctx, rows):
    """`python -m synrbl benchmark` on rows whose reaction is a reordered / respelled variant of the expected one:
    every row must be counted correct (default threshold 1)"""
    import pandas as pd
    from synrbl.SynCmd import cmd_benchmark

    if not rows:
        return
    with tempfile.TemporaryDirectory() as d:
        path = os.path.join(d, "out.csv")
        recs = []
        for i, (exp, act) in enumerate(rows):
            recs.append({"reaction": act, "expected_reaction": exp, "solved": True,
                         "solved_by": "rule-based" if i % 2 == 0 else "mcs-based", "confidence": 1.0})
        pd.DataFrame(recs).to_csv(path, index=False)
        stats = {"reaction_cnt": len(rows), "balanced_cnt": 0, "rb_solved": (len(rows) + 1) // 2, "rb_applied": (len(rows) + 1) // 2,
                 "mcs_applied": len(rows) // 2, "confident_cnt": len(rows) // 2}
        with open(path + ".stats", "w") as f:
            json.dump(stats, f)
        for meth in supported_methods():
            outp = os.path.join(d, "res_%s.json" % meth)
            args = argparse.Namespace(inputfile=path, o=outp, col="reaction", target_col="expected_reaction", min_confidence=0.5,
                                      similarity_method=meth, similarity_threshold=1)
            cmd_benchmark.run(args)
            with open(outp) as f:
                res = json.load(f)
            ctx.case(("benchmark", meth, len(rows)))
            if res.get("total_correct") != len(rows):
                ctx.violation("benchmark-miscounts-identical-reactions", {"rows": rows[:5], "method": meth},
                              "total_correct=%r of %d" % (res.get("total_correct"), len(rows)), "synrbl/SynCmd/cmd_benchmark.py:run")


# ------------------------------------------------------------------------------------------------ run
def domain(ctx, n):
    """stereo-free corpus reactions as pairs of token lists: RDKit-unmapped, and as shipped (atom-mapped)"""
    rx = [r for r in chem.corpus_reactions() if stereo_free(r)]
    multi = [r for r in rx if r.count(".") >= 2]
    pick = ctx.rng.sample(multi, min(len(multi), n // 2)) + ctx.rng.sample(rx, min(len(rx), n - n // 2))
    out = []
    for r in pick:
        u = unmapped_sides(r)
        if u is not None:
            out.append(("unmapped", u))
        mm = mapped_sides(r)
        if mm is not None and ctx.rng.random() < 0.35:
            out.append(("mapped", mm))
    # the curated expected reactions exactly as shipped (the benchmark's target column)
    ex = [r for r in chem.expected_reactions() if stereo_free(r)]
    for r in ctx.rng.sample(ex, min(len(ex), n // 4)):
        mm = mapped_sides(r)
        if mm is not None and all(t for side in mm for t in side):
            out.append(("expected", mm))
    return out


def anagram_reactions(ctx, groups, n):
    """reactions whose sides contain isomers with tied (count_atoms, character sum)"""
    rng = ctx.rng
    out = [[["CCCO", "CCOC"], ["CCCO"]], [["CCCO", "CCOC"], ["CCOC", "CCCO"]], [["CCCO", "CCOC", "COCC", "OCCC"], ["CC(C)O", "CCCO"]]]
    rx = [r for r in chem.corpus_reactions() if stereo_free(r)]
    for _ in range(n):
        g = rng.choice(groups)
        k = min(len(g), rng.randint(2, 3))
        iso = rng.sample(g, k)
        mode = rng.random()
        if mode < 0.4:
            out.append([list(iso), [iso[0]]])
        elif mode < 0.7:
            out.append([[iso[0]], list(iso)])
        else:
            u = unmapped_sides(rng.choice(rx))
            if u is None:
                continue
            side = rng.randrange(2)
            u[side] = u[side] + list(iso)
            rng.shuffle(u[side])
            out.append(u)
    return out


def wc_pairs(ctx, dom, n):
    """pairs of different reactions: unrelated, and near misses with equal and with different numbers of molecules"""
    rng = ctx.rng
    base = [mk(s) for k, s in dom if k in ("unmapped", "expected")]
    sides = [s for k, s in dom if k in ("unmapped", "expected")]
    out = []
    rows = [r for r in chem.validation_rows() if r.get("expected_reaction") and stereo_free(r["reaction"]) and stereo_free(r["expected_reaction"])]
    for _ in range(n):
        mode = rng.random()
        s = rng.choice(sides)
        a = mk(s)
        if mode < 0.2:
            out.append((a, rng.choice(base)))
        elif mode < 0.4:  # drop one molecule (different numbers of molecules)
            side = rng.randrange(2)
            if len(s[side]) < 2:
                side = 1 - side
            if len(s[side]) < 2:
                out.append((a, rng.choice(base)))
                continue
            v = [list(s[0]), list(s[1])]
            v[side].pop(rng.randrange(len(v[side])))
            out.append((a, mk(v)))
        elif mode < 0.6:  # add one molecule
            v = [list(s[0]), list(s[1])]
            side = rng.randrange(2)
            v[side].insert(rng.randrange(len(v[side]) + 1), rng.choice(rng.choice(sides)[rng.randrange(2)]))
            out.append((a, mk(v)))
        elif mode < 0.7:  # replace one molecule
            v = [list(s[0]), list(s[1])]
            side = rng.randrange(2)
            v[side][rng.randrange(len(v[side]))] = rng.choice(rng.choice(sides)[rng.randrange(2)])
            out.append((a, mk(v)))
        elif mode < 0.8:  # replace one molecule on each side (both side similarities come from fingerprints)
            v = [list(s[0]), list(s[1])]
            for side in range(2):
                v[side][rng.randrange(len(v[side]))] = rng.choice(rng.choice(sides)[rng.randrange(2)])
            out.append((a, mk(v)))
        else:  # the benchmark's own use: unbalanced input vs curated expected reaction
            r = rng.choice(rows)
            out.append((r["expected_reaction"], r["reaction"]))
    return out


def in_domain(t):
    return stereo_free(t)


def checks(ctx, n_rx, n_anagram, n_pairs, cap, n_respell, n_corr):
    methods = supported_methods()
    ctx.extra["similarity_methods"] = methods
    orc = Oracle()
    groups = anagram_groups()
    ctx.count("anagram-groups-in-corpus", len(groups))
    dom = domain(ctx, n_rx)
    ana = anagram_reactions(ctx, groups, n_anagram)
    # ---- statement on the real code
    bench_rows = []
    corr_strings = []
    for a, b in REGRESSION:
        sa, sb = mapped_sides(a), mapped_sides(b)
        stmt_variants(ctx, sa, [sb], methods, "order")
        bench_rows.append((a, b))
        corr_strings += [a, b]
    for a, b in EXPLICIT_H:
        stmt_variants(ctx, mapped_sides(a), [mapped_sides(b)], methods, "spelling")
        corr_strings += [a, b]
    for kind, sides in dom + [("anagram", s) for s in ana]:
        ctx.count("domain:" + kind)
        ctx.count("tokens-per-side:%d" % min(6, max(len(sides[0]), len(sides[1]))))
        vo = variants_by_order(ctx.rng, sides, cap)
        stmt_variants(ctx, sides, vo, methods, "order")
        vsp = variants_by_spelling(ctx.rng, sides, n_respell)
        stmt_variants(ctx, sides, vsp, methods, "spelling")
        stmt_idempotent(ctx, mk(sides))
        if len(corr_strings) < n_corr:
            corr_strings.append(mk(sides))
            corr_strings += [mk(v) for v in ctx.rng.sample(vo, min(2, len(vo)))] + [mk(v) for v in vsp[:1]]
        if len(bench_rows) < 60 and (vsp or len(vo) > 1) and "[H]" not in mk(sides):
            bench_rows.append((mk(sides), mk((vsp or vo)[-1])))
    pairs = wc_pairs(ctx, dom, n_pairs) + [(a, b) for a, b in REGRESSION]
    for a, b in pairs:
        stmt_symmetric_range(ctx, a, b, methods)
    stmt_benchmark_counts(ctx, bench_rows)
    ctx.sample({"reaction": mk(dom[0][1]), "normal_form": real_normalize(mk(dom[0][1]))})
    ctx.sample({"anagram_reaction": mk(ana[-1]), "normal_form": real_normalize(mk(ana[-1]))})
    # ---- correspondence
    corr_parts(ctx, gen_strings(ctx.rng, 1500 if ctx.tier == "quick" else 20000), gen_token_lists(ctx.rng, 800 if ctx.tier == "quick" else 8000, groups))
    corr_identity_kernel(ctx, gen_strings(ctx.rng, 800 if ctx.tier == "quick" else 10000) + [".".join(t) for t in gen_token_lists(ctx.rng, 300, groups)])
    stereo = [r for r in chem.corpus_reactions() if not stereo_free(r)]
    extra = ctx.rng.sample(stereo, min(len(stereo), 40)) + ["", "C", "C.C", "CC>>", ">>", "C>>C>>C", "C..C>>C", "xx>>C", "C.xx>>C", "[CH3:1][OH:2].[Na+]>>CO"]
    real_nf = corr_normalize(ctx, orc, corr_strings + extra)
    # normal forms are inputs of the benchmark's second and third normalisation
    corr_normalize(ctx, orc, [n for n in real_nf if n is not None][: n_corr // 2])
    triples = []
    for a, b in pairs[: max(30, n_corr // 3)]:
        for meth in methods:
            triples.append((a, b, meth))
            triples.append((b, a, meth))
    for a, b in REGRESSION + EXPLICIT_H:
        triples += [(a, b, meth) for meth in methods]
    triples += [("CCO.CC>>CCOCC", "CCO.CC>>CCOCCC", meth) for meth in methods]
    triples += [("CCO>>CC=O", "CCO>>CC=O", "no-such-method"), ("CCO>>CC=O", "CCO>>CCO", "no-such-method"), ("CCO", "CC", methods[0]),
                ("C>>C>>C", "C>>C>>N", methods[0]), ("xx>>C", "C>>C", methods[0]), ("C.C>>C", "C>>C", methods[0]), ("C.N>>C.O", "C>>C", methods[0])]
    real_sims = corr_wc(ctx, orc, triples)
    ctx.sample({"wc_similarity": triples[0], "value": None if real_sims[0] is None else float(real_sims[0])})
    if orc.fp_fallback:
        ctx.notes.append("wc_similarity's helpers could not be stubbed; fingerprint answers recorded from RDKit directly")
    check_laws(ctx, orc, in_domain)


def search(ctx):
    """deeper hunt on the real code: more of the corpus, every anagram group, more respellings"""
    save = ctx.rng
    checks(ctx, n_rx=1200, n_anagram=1500, n_pairs=1500, cap=24, n_respell=3, n_corr=60)
    ctx.rng = save


def run(ctx):
    ctx.rule = (
        "stereo-free validation-set reactions (no @ / \\), half of them drawn from those with three or more molecules, as pairs "
        "of token lists, atom maps removed by RDKit (35% additionally as shipped, atom-mapped); reactions built from anagram-isomer "
        "groups mined from the corpus (same count_atoms and character sum, different canonical SMILES) alone and appended to corpus "
        "reactions; per reaction: every ordering of each side for <= 5 tokens (sampled beyond / above the cap) plus joint orderings, "
        "respellings written by RDKit from the same molecule (random, kekulised, rooted non-canonical, all-H-explicit) with and "
        "without reordering; similarity pairs: unrelated reactions, one molecule dropped / added / replaced (different numbers of "
        "molecules), expected vs unbalanced validation rows, all methods read from the source, both argument orders; non-trivial = "
        "variant string differs from the base (order/spelling), similarity below 1 actually computed from fingerprints (symmetry/range)"
    )
    ctx.assumptions = [
        "RDKit canonical SMILES per molecule token and fingerprint similarity per difference pair are oracle answers; laws "
        "assumed by the theorems (canonical SMILES of a stereo-free token is one token without . > @ and canonicalises to itself; "
        "fingerprint similarity symmetric and within [0,1]) are evaluated on every recorded answer",
        "Python re (\\w restricted to ASCII), str.split/join, list.sort stability under reverse=True, tuple and str comparison as "
        "modelled in Model/Normalize.lean; differentially tested against CPython / the repository functions in this run",
        "equivalent spelling = a SMILES RDKit writes from the same molecule object",
    ]
    ctx.gen_tables()
    built = ctx.build([MODULE])
    drv = ctx.build_driver()
    if built:
        ctx.audit(MODULE)
    if drv:
        if ctx.tier == "quick":
            checks(ctx, n_rx=260, n_anagram=160, n_pairs=220, cap=24, n_respell=2, n_corr=240)
        else:
            checks(ctx, n_rx=4283, n_anagram=3000, n_pairs=4000, cap=120, n_respell=4, n_corr=3000)
    if ctx.breaks and ctx.violations and all(v["mechanism"] == MECH_EXPLICIT_H for v in ctx.violations):
        # finish() starts the failing-input search only when nothing was reported yet; the replayed known finding
        # must not switch the search off
        try:
            search(ctx)
        except Exception as e:
            ctx.notes.append("search crashed: %s" % e)
        return ctx.finish(None)
    return ctx.finish(search)
