"""C12 — result caching is transparent across runs, configurations and crashes.

Lean side: `Model/Cache.lean` (the cache directory as a state machine: scan, `is_cached`, `load_cache`, `write_cache` =
temporary file + one rename, hit needs rows AND statistics, failed batches, empty-batch skip, every kill / failure point of
a write, environment steps), `Properties/C12.lean` (invariant preserved by every operation and crash point, transparency of a
run, of every history from the empty directory, re-run served from the cache, witnesses for both reverted fixes).

This file
  * runs histories of operations against the REAL `Balancer(cache=True, cache_dir=<temp dir outside /repo and /verif>)`:
    completed runs (threshold, column names, batch size, input list, row form), runs killed inside `write_cache`
    (`json.dump` dies after k bytes / `os.replace` never happens / killed right after the rename / killed while the batch is a
    hit), runs whose `write_cache` raises `OSError`, entry files cut to a prefix, stray files, files in sub-directories,
    deletions;
  * states the property independently on the real code: every completed run returns the rows and the statistics of the
    same call with `cache=False` (deep, type-strict, key-order-strict equality);
  * replays every history in the Lean model (`cacheHistory`, symbolic configurations/batches, the real SHA-256 keys and the
    real result documents as tables) and compares, after every operation, the outcome (completed/killed, which batches were
    hits, the per-batch rows and statistics) and the exact directory listing (names and contents);
  * checks the oracle laws on the real data: `json.load(json.dump(x)) == x` type-strictly for every result document, no
    proper prefix of a document loads (`load_cache` gives `{}`), pipeline determinism per (configuration, batch);
  * checks `os.path.splitext` / the registration test of `CacheManager.__init__` against the model on file names.
"""
import ast
import contextlib
import copy
import inspect
import io
import itertools
import json
import math
import os
import shutil
import tempfile
import textwrap

from core import quiet

quiet()
MODULE = "SynRBLModel.Properties.C12"
CALL_SITE = "synrbl/balancing.py:__try_cache/__rebalance_batch + synrbl/SynUtils/batching.py:CacheManager"
FAIL = "[Fail]>>C"  # a batch containing this reaction makes the (wrapped) pipeline raise

CFGS = [
    {"confidence_threshold": 0, "reaction_col": "reaction", "id_col": "id"},
    {"confidence_threshold": 0.5, "reaction_col": "reaction", "id_col": "id"},
    {"confidence_threshold": 0.9, "reaction_col": "reaction", "id_col": "id"},
    {"confidence_threshold": 0, "reaction_col": "rxn", "id_col": "id"},
    {"confidence_threshold": 0, "reaction_col": "reaction", "id_col": "rid"},
    # two thresholds 0.0004 apart on either side of the confidence 0.867 (float32 0.86699998…) of input B's second MCS row:
    # they agree to three decimals, yet the row is kept under the first and demoted under the second
    {"confidence_threshold": 0.8668, "reaction_col": "reaction", "id_col": "id"},
    {"confidence_threshold": 0.8672, "reaction_col": "reaction", "id_col": "id"},
    # the public `columns` attribute widened by a pass-through column of the dictionary inputs (it selects what is reported,
    # not what is computed: an entry written under the default columns must serve this configuration and vice versa)
    {"confidence_threshold": 0, "reaction_col": "reaction", "id_col": "id", "columns_extra": ["note"]},
]
INPUTS = {
    "A": ["C>>C", "CC(=O)C>>CC(O)C", "CCO>>CC=O", "xx>>C"],  # balanced / rule-based / malformed: never reaches MCS
    "B": ["CCOCC>>CCO", "C>>C", "C=CC>>CC"],  # MCS rows with confidence 0.156 and 0.867: the thresholds matter
    "C": ["CC(=O)C>>CC(O)C", "CCO>>CC=O", "CCOCC>>CCO"],  # overlaps A and B
    "D": ["CCO>>CC=O", FAIL, "C>>C"],  # a batch on which the pipeline raises
    "E": [],
    "F": ["C>>C", "C>>C"],  # identical rows: with batch_size 1 the same key twice in one run
    "G": ["C>>C", "CCO>>CC=O"],  # same first row as A and F
    "H": ["C=CC>>CC", "CCOCC>>CCO", "C>>C"],  # the rows of B in another order: another batch, another entry
    "I": ["CCO>>CC=O", "C>>C"],  # the rows of G in another order
}
BATCH_SIZES = [None, 1, 2]
FORMS = ["str", "dict", "dict2"]  # dict2: the same reactions with other values in the extra columns
POINTS = ["beforeWrite", "tmpPrefix", "tmpComplete", "afterRename"]


class Kill(BaseException):
    """the process dies here (not an `Exception`: nothing in the library may catch it)"""


# ------------------------------------------------------------------------------------------------ real-code probe
class Probe:
    """Class-level wrappers around the real code (nothing in /repo is edited):
    `Balancer.__run_pipeline` — memo of the REAL results per (configuration, batch) (each pair is computed twice the first
    time = determinism check), injected failure for batches containing FAIL, call log;
    `Balancer.__rebalance_batch` — per-batch log (hit = pipeline not invoked, what was merged), arms the write fault;
    `CacheManager.write_cache` — the armed fault: dies / raises at the requested point of the real `write_cache`."""

    def __init__(self, ctx):
        import synrbl.SynUtils.batching as batching
        from synrbl import Balancer

        self.ctx = ctx
        self.batching = batching
        self.Balancer = Balancer
        self.memo = {}
        self.log = None
        self.fault = None
        self.nondet = []
        self.pipeline_calls = 0
        self.orig_pipeline = Balancer._Balancer__run_pipeline
        self.orig_batch = Balancer._Balancer__rebalance_batch
        self.orig_write = batching.CacheManager.write_cache
        probe = self

        def run_pipeline(bal, reactions, stats=None, *a, **kw):
            ent = probe.pipeline_entry(bal, reactions)
            if probe.log is not None:
                probe.log["pipeline_called"] = True
            if stats is not None:
                stats.update(copy.deepcopy(ent["stats"]))
            if ent["rows"] is None:
                raise RuntimeError("injected pipeline failure")
            return copy.deepcopy(ent["rows"])

        def rebalance_batch(bal, batch, cache_manager, *a, **kw):
            log = probe.log
            if log is None:
                return probe.orig_batch(bal, batch, cache_manager, *a, **kw)
            idx = log["n"]
            log["n"] += 1
            log["pipeline_called"] = False
            f = probe.fault
            armed = f is not None and f["at"] == idx
            probe.armed = armed
            probe.fired = False
            try:
                result, stats = probe.orig_batch(bal, batch, cache_manager, *a, **kw)
            finally:
                probe.armed = False
            log["batches"].append(
                {
                    "batch": json.dumps(batch, sort_keys=True, default=repr),
                    "hit": not log["pipeline_called"],
                    "merged": None if result is None else {"rows": copy.deepcopy(result), "stats": copy.deepcopy(stats)},
                }
            )
            if armed and f["kind"] == "kill":
                raise Kill()  # the batch wrote nothing (hit / failed pipeline) or the write outlived its fault: die here
            return result, stats

        def write_cache(cm, key, data):
            if not getattr(probe, "armed", False):
                return probe.orig_write(cm, key, data)
            probe.armed = False
            probe.fired = True
            f = probe.fault
            exc = Kill() if f["kind"] == "kill" else OSError(28, "injected: no space left on device")
            p = f["point"]
            if p == "beforeWrite":
                raise exc
            if p == "tmpPrefix":
                real_json = batching.json

                class JsonShim:
                    def __getattr__(self, name):
                        return getattr(real_json, name)

                    @staticmethod
                    def dump(obj, fh, **kw):
                        fh.write(real_json.dumps(obj, **kw)[: f["k"]])
                        raise exc

                batching.json = JsonShim()
                try:
                    return probe.orig_write(cm, key, data)
                finally:
                    batching.json = real_json
            if p == "tmpComplete":
                real_os = batching.os

                class OsShim:
                    def __getattr__(self, name):
                        return getattr(real_os, name)

                    @staticmethod
                    def replace(src, dst):
                        raise exc

                batching.os = OsShim()
                try:
                    return probe.orig_write(cm, key, data)
                finally:
                    batching.os = real_os
            if p == "afterRename":
                probe.orig_write(cm, key, data)
                raise exc
            raise AssertionError(p)

        self.wrappers = (run_pipeline, rebalance_batch, write_cache)

    def __enter__(self):
        B, CM = self.Balancer, self.batching.CacheManager
        B._Balancer__run_pipeline, B._Balancer__rebalance_batch, CM.write_cache = self.wrappers
        return self

    def __exit__(self, *a):
        B, CM = self.Balancer, self.batching.CacheManager
        B._Balancer__run_pipeline, B._Balancer__rebalance_batch, CM.write_cache = self.orig_pipeline, self.orig_batch, self.orig_write

    # -- pipeline memo -------------------------------------------------------------------------------------------
    @staticmethod
    def cfg_of(bal):
        return (bal._Balancer__reaction_col, bal._Balancer__id_col, bal.confidence_threshold, bal.remove_aam)

    def pipeline_entry(self, bal, reactions):
        ck = self.cfg_of(bal)
        bk = json.dumps(reactions, sort_keys=True, default=repr)
        ent = self.memo.get((ck, bk))
        if ent is None:
            rc = ck[0]
            if any(isinstance(r, dict) and r.get(rc) == FAIL for r in reactions):
                ent = {"rows": None, "stats": {"reaction_cnt": len(reactions)}}
            else:
                runs = []
                for _ in range(2):
                    st = {}
                    rows = self.orig_pipeline(bal, copy.deepcopy(reactions), st)
                    self.pipeline_calls += 1
                    runs.append({"rows": rows, "stats": st})
                if not strict_eq(runs[0], runs[1]):
                    self.nondet.append({"cfg": list(ck), "batch": bk})
                ent = runs[0]
            self.memo[(ck, bk)] = ent
        return ent


def strict_eq(a, b):
    """deep equality that also compares types (bool/int/float, list/tuple), dict key order and treats NaN as equal to NaN"""
    if type(a) is not type(b):
        return False
    if isinstance(a, dict):
        return list(a.keys()) == list(b.keys()) and all(strict_eq(a[k], b[k]) for k in a)
    if isinstance(a, (list, tuple)):
        return len(a) == len(b) and all(strict_eq(x, y) for x, y in zip(a, b))
    if isinstance(a, float):
        return (math.isnan(a) and math.isnan(b)) or a == b
    return a == b


def loose_eq(a, b):
    """equality up to what JSON cannot represent (tuple/list, int-valued float, non-string keys)"""
    try:
        return json.loads(json.dumps(a)) == json.loads(json.dumps(b))
    except Exception:
        return False


# ------------------------------------------------------------------------------------------------ the world
class World:
    """one temp cache directory, the Balancers, the symbolic tables for the model"""

    def __init__(self, ctx, probe, fresh_balancers=False):
        self.ctx = ctx
        self.probe = probe
        self.fresh = fresh_balancers
        self.bal = {}
        self.dir = None
        self.batch_ids = {"[]": 0}
        self.batch_rows = {0: []}
        self.ref_memo = {}

    # -- real objects ------------------------------------------------------------------------------------------------
    def balancer(self, ci, cache):
        # One Balancer object per (column names, cache) is shared by the configurations that differ only in the threshold;
        # the threshold is set through the public attribute before every call (as a long-lived service object would be
        # reconfigured), so a configuration captured once at construction time would go stale.  In `fresh` mode every
        # cached call constructs its Balancer anew with the threshold given to the constructor.
        c = CFGS[ci]
        if self.fresh and cache:
            b = self.probe.Balancer(
                n_jobs=1, cache=cache, cache_dir=self.dir, confidence_threshold=c["confidence_threshold"],
                reaction_col=c["reaction_col"], id_col=c["id_col"],
            )
            b.columns = list(b.columns) + list(c.get("columns_extra", []))
            return b
        key = (c["reaction_col"], c["id_col"], cache)
        if key not in self.bal:
            self.bal[key] = self.probe.Balancer(
                n_jobs=1, cache=cache, cache_dir=self.dir if cache else None, confidence_threshold=c["confidence_threshold"],
                reaction_col=c["reaction_col"], id_col=c["id_col"],
            )
        b = self.bal[key]
        if not hasattr(b, "_c12_default_columns"):
            b._c12_default_columns = list(b.columns)
        b.columns = list(b._c12_default_columns) + list(c.get("columns_extra", []))
        b.confidence_threshold = c["confidence_threshold"]
        if cache:
            b.cache_dir = self.dir
        return b

    def new_dir(self):
        self.close()
        self.dir = tempfile.mkdtemp(prefix="synrbl_c12_")
        assert not self.dir.startswith(("/repo", "/verif"))
        return self.dir

    def close(self):
        if self.dir and os.path.isdir(self.dir):
            shutil.rmtree(self.dir, ignore_errors=True)
        self.dir = None

    # -- inputs ------------------------------------------------------------------------------------------------------
    @staticmethod
    def rows_of(ci, name, form):
        rc = CFGS[ci]["reaction_col"]
        rx = INPUTS[name]
        if form == "str":
            return list(rx)
        if form == "dict2":
            return [{rc: r, "note": "other-%d" % (7 * i), "tag": ["y", -i, 1.5]} for i, r in enumerate(rx)]
        return [{rc: r, "note": i, "tag": ["x", i, 0.5]} for i, r in enumerate(rx)]

    def batches_of(self, ci, name, form, bs):
        """the loader sequence `rebalance` iterates over (real `Dataset` / `DataLoader`), as symbolic batch ids"""
        from synrbl.SynUtils.batching import DataLoader, Dataset

        rc = CFGS[ci]["reaction_col"]
        data = [{rc: r} if isinstance(r, str) else r for r in self.rows_of(ci, name, form)]
        seq = [list(data)] if bs is None else list(DataLoader(Dataset(copy.deepcopy(data)), batch_size=bs))
        out = []
        for b in seq:
            k = json.dumps(b, sort_keys=True)
            if k not in self.batch_ids:
                self.batch_ids[k] = len(self.batch_ids)
                self.batch_rows[self.batch_ids[k]] = b
            out.append(self.batch_ids[k])
        return out

    def real_key(self, ci, bid):
        """the key the REAL `__try_cache` computes for this configuration and batch (no side effects)"""
        CM = self.probe.batching.CacheManager
        stub = CM.__new__(CM)
        stub._CacheManager__cache_refs = {}
        bal = self.balancer(ci, False)
        return bal._Balancer__try_cache(stub, copy.deepcopy(self.batch_rows[bid]))[2]

    def doc(self, ci, bid):
        """(document text | None if the pipeline raises, statistics at the failure)"""
        bal = self.balancer(ci, False)
        ent = self.probe.pipeline_entry(bal, copy.deepcopy(self.batch_rows[bid]))
        if ent["rows"] is None:
            return None, json.dumps(ent["stats"])
        return json.dumps({"stats": ent["stats"], "result": ent["rows"]}), None

    # -- directory ---------------------------------------------------------------------------------------------------
    def snapshot(self):
        files, nested = {}, []
        for dp, dn, fn in os.walk(self.dir):
            for f in fn:
                if dp == self.dir:
                    with open(os.path.join(dp, f), "r") as fh:
                        files[f] = fh.read()
                else:
                    nested.append(f)
        return {"files": files, "nested": sorted(nested)}

    # -- operations on the real code ---------------------------------------------------------------------------------
    def call(self, ci, name, form, bs, output_dict, cache, fault=None, want_stats=True):
        bal = self.balancer(ci, cache)
        log = {"n": 0, "batches": [], "pipeline_called": False}
        self.probe.log, self.probe.fault = log, fault
        stats = {} if want_stats else None  # `rebalance(stats=None)` is the default of the public API
        res = {"status": "completed", "log": log}
        try:
            with contextlib.redirect_stderr(io.StringIO()):  # the library prints the traceback of every swallowed exception
                out = bal.rebalance(copy.deepcopy(self.rows_of(ci, name, form)), output_dict=output_dict, stats=stats, batch_size=bs)
            res["rows"], res["stats"] = out, stats
        except Kill:
            res["status"] = "killed"
        except Exception as e:  # an exception leaves rebalance
            res["status"] = "raised"
            res["error"] = "%s: %s" % (type(e).__name__, e)
        finally:
            self.probe.log, self.probe.fault = None, None
        return res

    def reference(self, ci, name, form, bs, output_dict, want_stats=True):
        k = (ci, name, form, bs, output_dict, want_stats)
        if k not in self.ref_memo:
            self.ref_memo[k] = self.call(ci, name, form, bs, output_dict, cache=False, want_stats=want_stats)
        return self.ref_memo[k]


def describe(op):
    return {k: v for k, v in op.items() if not k.startswith("_")}


def apply_real(w, op):
    """perform one operation on the real directory / real code; returns the real outcome record"""
    kind = op["kind"]
    if kind in ("run", "crash", "ioError"):
        seq = w.batches_of(op["cfg"], op["input"], op["form"], op["bs"])
        op["_batches"] = seq
        fault = None
        if kind != "run":
            at = op["at"]
            nonempty_before = sum(1 for b in seq[:at] if b != 0)
            if at < len(seq) and seq[at] != 0:
                fault = {"at": nonempty_before, "kind": "kill" if kind == "crash" else "ioError", "point": op["point"], "k": op.get("k", 0)}
        r = w.call(op["cfg"], op["input"], op["form"], op["bs"], op.get("output_dict", True), True, fault, want_stats=op.get("stats", True))
        if kind == "crash" and r["status"] == "completed":
            r["status"] = "killed"  # `at` is past the last non-empty batch: killed after the loop, before returning
            r.pop("rows", None)
        return r
    path = os.path.join(w.dir, op["file"])
    if kind == "truncate":
        if os.path.isfile(path):
            with open(path) as f:
                c = f.read()
            with open(path, "w") as f:
                f.write(c[: op["k"]])
    elif kind == "putFile":
        with open(path, "w") as f:
            f.write(op["content"])
    elif kind == "putNested":
        os.makedirs(os.path.join(w.dir, "sub", "deeper"), exist_ok=True)
        with open(os.path.join(w.dir, "sub", "deeper" if op.get("deep") else "", op["file"]), "w") as f:
            f.write(op.get("content", ""))
    elif kind == "delete":
        if os.path.isfile(path):
            os.remove(path)
    elif kind == "mkdir":  # a directory is not a file for the scan: invisible to the model
        os.makedirs(path, exist_ok=True)
    return {"status": "noRun"}


def model_op(op):
    kind = op["kind"]
    if kind == "run":
        return {"kind": "run", "cfg": op["cfg"], "batches": op["_batches"]}
    if kind in ("crash", "ioError"):
        return {"kind": kind, "cfg": op["cfg"], "batches": op["_batches"], "at": op["at"], "point": {"p": op["point"], "k": op.get("k", 0)}}
    if kind == "mkdir":
        return None
    m = {"kind": kind, "file": op["file"]}
    if kind == "truncate":
        m["k"] = op["k"]
    if kind == "putFile":
        m["content"] = op["content"]
    return m


# ------------------------------------------------------------------------------------------------ statement
def statement(ctx, w, hist, i, op, real):
    """the property on the real code, decided without the model: a completed cached run == the same run uncached"""
    if op["kind"] not in ("run", "ioError"):
        return True
    od = op.get("output_dict", True)
    ref = w.reference(op["cfg"], op["input"], op["form"], op["bs"], od, op.get("stats", True))
    witness = {"history": [describe(o) for o in hist[: i + 1]], "configs": CFGS, "inputs": {k: INPUTS[k] for k in sorted({o["input"] for o in hist[: i + 1] if "input" in o})}}
    if ref["status"] != "completed":
        ctx.notes.append("uncached reference run did not complete: %s" % ref.get("error"))
        return True
    if real["status"] != "completed":
        ctx.violation("cached-run-raises", witness, "with the cache: %s; without: completes" % real.get("error"), CALL_SITE)
        return False
    hits = sum(1 for b in real["log"]["batches"] if b["hit"])
    disturbed = any(o["kind"] != "run" for o in hist[:i])
    ctx.case(("run", json.dumps(witness["history"], sort_keys=True)), nontrivial=hits > 0 or disturbed)
    ctx.count("run:hits>0" if hits else "run:all-computed")
    if strict_eq(real["rows"], ref["rows"]) and strict_eq(real["stats"], ref["stats"]):
        return True
    if loose_eq(real["rows"], ref["rows"]) and loose_eq(real["stats"], ref["stats"]):
        # same values, another representation (JSON round trip of a hit): reported, see NOTES.md for the verdict
        ctx.violation("cached-result-representation-differs", witness, "cached: %r / %r\nuncached: %r / %r" % (real["rows"], real["stats"], ref["rows"], ref["stats"]), CALL_SITE)
        return False
    what = "rows" if not loose_eq(real["rows"], ref["rows"]) else "statistics"
    ctx.violation(
        "cached-result-differs", witness,
        "%s differ (hits in this run: %d)\ncached:   %r / %r\nuncached: %r / %r" % (what, hits, real["rows"], real["stats"], ref["rows"], ref["stats"]),
        CALL_SITE,
    )
    return False


# ------------------------------------------------------------------------------------------------ histories
def gen_op(ctx, w, rng, hist):
    """one random operation given the directory as it is now"""
    snap = w.snapshot()
    entries = sorted(f for f in snap["files"] if f.endswith(".cache"))
    r = rng.random()
    if r < 0.45 or not hist:
        op = {"kind": "run"}
    elif r < 0.70:
        op = {"kind": "crash"}
    elif r < 0.78:
        op = {"kind": "ioError"}
    else:
        choices = ["putStray", "putNested", "mkdir"] + (["truncate", "truncate", "delete", "overwrite", "tmpOf"] if entries else [])
        c = rng.choice(choices)
        if c == "truncate":
            f = rng.choice(entries)
            n = len(snap["files"][f])
            return {"kind": "truncate", "file": f, "k": rng.choice([0, 1, n // 2, n - 1, rng.randint(0, n)])}
        if c == "delete":
            return {"kind": "delete", "file": rng.choice(sorted(snap["files"]))}
        if c == "overwrite":  # admissible foreign content at the place of an entry: nothing that loads with both members
            return {"kind": "putFile", "file": rng.choice(entries), "content": rng.choice(["", "[]", "{}", "null", "12", '{"result": null, "stats": {}}', '{"stats": {"reaction_cnt": 99}}', '{"result": [{"reaction": "stale"}], "stats": null}x', "\x00\x01garbage"])}
        if c == "tmpOf":
            return {"kind": "putFile", "file": rng.choice(entries) + ".tmp", "content": rng.choice(["", '{"stats"', snap["files"][entries[0]]])}
        if c == "putStray":
            return {"kind": "putFile", "file": rng.choice(["x.tmp", "README", "notes.cache", ".cache", "a..cache", "K.CACHE", "0" * 64 + ".cache"]), "content": rng.choice(["hello", "", '{"stats": {}, "result": []}'])}
        if c == "putNested":
            # a well-formed but WRONG document under the name of a real entry, in a sub-directory: must never be used
            name = rng.choice(entries) if entries and rng.random() < 0.7 else "f" * 64 + ".cache"
            return {"kind": "putNested", "file": name, "content": '{"stats": {"reaction_cnt": 77}, "result": [{"reaction": "wrong"}]}', "deep": rng.random() < 0.5}
        return {"kind": "mkdir", "file": rng.choice(["dir.cache", "somedir"])}
    # a run-like operation: prefer configurations / inputs already used in this history (hits, overlaps, other thresholds)
    used = [o for o in hist if "input" in o]
    if used and rng.random() < 0.6:
        b = rng.choice(used)
        op.update(cfg=b["cfg"], input=b["input"], form=b["form"], bs=b["bs"])
        m = rng.random()
        if m < 0.35:
            op["cfg"] = rng.randrange(len(CFGS))
        elif m < 0.5:
            op["bs"] = rng.choice(BATCH_SIZES)
        elif m < 0.6:
            op["input"] = rng.choice(sorted(INPUTS))
        elif m < 0.65:
            op["form"] = rng.choice(FORMS)
    else:
        op.update(cfg=rng.randrange(len(CFGS)), input=rng.choice(sorted(INPUTS)), form=rng.choice(FORMS), bs=rng.choice(BATCH_SIZES))
    op["output_dict"] = rng.random() < 0.8
    op["stats"] = rng.random() < 0.7  # whether the caller passes a statistics dictionary
    if op["kind"] != "run":
        seq = w.batches_of(op["cfg"], op["input"], op["form"], op["bs"])
        op["at"] = rng.randint(0, len(seq)) if rng.random() < 0.25 else rng.randrange(max(1, len(seq)))
        op["point"] = rng.choice(POINTS)
        if op["point"] == "tmpPrefix":
            op["k"] = rng.choice([0, 1, 17, 120, rng.randint(0, 400), 10**6])
    return op


def run_history(ctx, w, ops_or_gen, max_ops=None, check_statement=True):
    """execute a history on the real code; returns (ops, real outcomes, snapshots, statement ok)"""
    w.new_dir()
    hist, reals, snaps = [], [], []
    ok = True
    try:
        it = ops_or_gen if isinstance(ops_or_gen, list) else None
        n = len(it) if it is not None else max_ops
        for i in range(n):
            op = copy.deepcopy(it[i]) if it is not None else ops_or_gen(hist)
            if op["kind"] == "truncate" and "file" not in op:  # symbolic target: the entry of (cfg, input, batch index)
                seq = w.batches_of(op["of"]["cfg"], op["of"]["input"], op["of"]["form"], op["of"]["bs"])
                op["file"] = w.real_key(op["of"]["cfg"], seq[op["of"]["index"]]) + ".cache"
                if op["k"] == "half":
                    p = os.path.join(w.dir, op["file"])
                    op["k"] = os.path.getsize(p) // 2 if os.path.isfile(p) else 0
            hist.append(op)
            real = apply_real(w, op)
            reals.append(real)
            snaps.append(w.snapshot())
            ctx.count("op:" + op["kind"] + (":" + op["point"] if "point" in op else ""))
            if check_statement and not statement(ctx, w, hist, i, op, real):
                ok = False
                break
    finally:
        tables = model_tables(w, hist[: len(reals)])
        w.close()
    return hist[: len(reals)], reals, snaps, ok, tables


def model_tables(w, hist):
    """symbolic tables for the Lean model: the real key and the real result document of every (configuration, batch)"""
    pairs = sorted({(o["cfg"], b) for o in hist if "_batches" in o for b in o["_batches"] if b != 0})
    keys, docs, fails = [], [], []
    for ci, b in pairs:
        keys.append([ci, b, w.real_key(ci, b)])
        d, fs = w.doc(ci, b)
        docs.append([ci, b, d])
        if d is None:
            fails.append([ci, b, fs])
    return {"keys": keys, "pipeline": docs, "failStats": fails, "empty": [0]}


def compare_with_model(ctx, label, runs):
    """runs: list of (hist, reals, snaps, ok, tables); one driver call for all of them"""
    reqs, kept = [], []
    for hist, reals, snaps, ok, tables in runs:
        mops, idx = [], []
        for i, op in enumerate(hist):
            m = model_op(op)
            if m is not None:
                mops.append(m)
                idx.append(i)
        if not mops:
            continue
        reqs.append(dict(tables, op="cacheHistory", ops=mops))
        kept.append((hist, reals, snaps, idx))
    answers = ctx.driver(reqs)
    bad = 0
    for (hist, reals, snaps, idx), ans in zip(kept, answers):
        if "error" in ans:
            ctx.corr_break("Cache.driver", [describe(o) for o in hist], ans["error"], None)
            bad += 1
            continue
        for j, i in enumerate(idx):
            real, snap, out, disk = reals[i], snaps[i], ans["outcomes"][j], ans["disks"][j]
            ctx.traces += 1
            case = {"history": [describe(o) for o in hist[: i + 1]], "step": i}
            mfiles = {n: c for n, c in disk["files"]}
            problems = []
            if out["status"] != real["status"]:
                problems.append(("status", out["status"], real["status"] + (": " + real.get("error", "") if real["status"] == "raised" else "")))
            elif out["status"] == "completed":
                rb = real["log"]["batches"]
                if out["hits"] != [b["hit"] for b in rb]:
                    problems.append(("hits", out["hits"], [b["hit"] for b in rb]))
                mm = [{"rows": json.loads(m["rows"]), "stats": json.loads(m["stats"])} for m in out["merged"]]
                rm = [json.loads(json.dumps(b["merged"])) for b in rb if b["merged"] is not None]
                if mm != rm:
                    problems.append(("merged", mm, rm))
            if mfiles != snap["files"]:
                diff = {n: (mfiles.get(n), snap["files"].get(n)) for n in set(mfiles) | set(snap["files"]) if mfiles.get(n) != snap["files"].get(n)}
                problems.append(("directory", {n: v[0] for n, v in diff.items()}, {n: v[1] for n, v in diff.items()}))
            # (the model keeps the nested foreign files as a list: writing the same path twice lists it twice, the directory
            # holds it once)
            if sorted(set(disk["nested"])) != sorted(set(snap["nested"])):
                problems.append(("nested", disk["nested"], snap["nested"]))
            if problems:
                bad += 1
                if bad <= 3:
                    what, m, r = problems[0]
                    ctx.corr_break("Cache.step (%s) [%s]" % (what, label), case, m, r)
                break
    ctx.count("histories:" + label, len(kept))
    return bad


# ------------------------------------------------------------------------------------------------ fixed scenarios
def R(cfg, inp, bs=None, form="str", od=True, stats=True):
    return {"kind": "run", "cfg": cfg, "input": inp, "form": form, "bs": bs, "output_dict": od, "stats": stats}


def X(kind, cfg, inp, at, point, k=0, bs=None, form="str"):
    return {"kind": kind, "cfg": cfg, "input": inp, "form": form, "bs": bs, "at": at, "point": point, "k": k, "output_dict": True}


def T(cfg, inp, index, k, bs=None, form="str"):
    return {"kind": "truncate", "of": {"cfg": cfg, "input": inp, "form": form, "bs": bs, "index": index}, "k": k}


REGRESSION = {
    # 676bf5c: threshold 0 then 0.9 over one directory served the threshold-0 rows
    "threshold-0-then-0.9": [R(0, "B"), R(2, "B"), R(1, "B"), R(0, "B"), R(2, "B")],
    "threshold-per-batch": [R(0, "B", 1), R(2, "B", 1), R(1, "B", 2), R(2, "B", 2)],
    # thresholds closer than the printed resolution of a confidence are still different configurations
    "threshold-within-rounding": [R(5, "B"), R(6, "B"), R(5, "B"), R(6, "B", 1), R(5, "B", 1)],
    # a batch is a sequence: the same rows in another order are another batch
    "same-rows-other-order": [R(0, "B"), R(0, "H"), R(0, "G"), R(0, "I"), R(0, "H", 2), R(0, "B", 2)],
    # what is reported (`columns`) is not part of the entry: narrow-then-wide and wide-then-narrow over dictionary inputs
    "columns-widened-later": [R(0, "C", form="dict"), R(7, "C", form="dict"), R(0, "C", form="dict"), R(7, "B", 2, form="dict"), R(0, "B", 2, form="dict")],
    # a row is all of its columns: the same reactions with other values in the pass-through columns are another batch
    "same-reactions-other-metadata": [R(7, "C", form="dict"), R(7, "C", form="dict2"), R(7, "C", form="dict"), R(7, "B", 2, form="dict2"), R(7, "B", 2, form="dict")],
    "column-names": [R(0, "A"), R(3, "A"), R(4, "A"), R(3, "A", form="dict"), R(0, "A", form="dict")],
    # f8ec0af: a truncated entry made the next run raise JSONDecodeError
    "truncated-entry": [R(0, "A"), T(0, "A", 0, "half"), R(0, "A"), R(0, "A")],
    "empty-entry": [R(0, "A", 2), T(0, "A", 1, 0, bs=2), R(0, "A", 2)],
    "killed-mid-write": [X("crash", 0, "A", 0, "tmpPrefix", 40), R(0, "A"), R(0, "A")],
    "killed-before-rename": [X("crash", 0, "A", 1, "tmpComplete", bs=2), R(0, "A", 2), R(0, "A", 2)],
    "killed-after-rename": [X("crash", 0, "A", 0, "afterRename", bs=2), R(0, "A", 2)],
    "killed-while-hit": [R(0, "A", 2), X("crash", 0, "A", 1, "tmpPrefix", 5, bs=2), R(0, "A", 2)],
    "killed-after-loop": [X("crash", 0, "A", 2, "beforeWrite", bs=2), R(0, "A", 2)],
    "disk-full": [X("ioError", 0, "A", 0, "tmpPrefix", 33, bs=2), R(0, "A", 2), X("ioError", 1, "B", 0, "tmpComplete"), R(1, "B")],
    # key must cover the whole batch (first row shared by A, F, G)
    "shared-first-row": [R(0, "A"), R(0, "G"), R(0, "F"), R(0, "G", 1), R(0, "F", 1)],
    "overlap-and-batching": [R(0, "A", 2), R(0, "C", 2), R(0, "C", 1), R(0, "A", 1), R(0, "A")],
    # failed batches: nothing merged, nothing written, recomputed every time
    "failing-batch": [R(0, "D", 1), R(0, "D", 1), R(0, "D"), R(0, "D"), R(0, "D", 2)],
    "empty-input": [R(0, "E"), R(0, "E", 1), R(0, "A", 2), R(0, "A", 1)],
    "same-key-twice-in-a-run": [R(0, "F", 1), R(0, "F", 1), T(0, "F", 0, 7, bs=1), R(0, "F", 1)],
    # the caller's interest in statistics is not part of the key: entries written by a run without a statistics dictionary
    # must serve a later run that asks for one (and the other way round)
    "stats-not-requested-then-requested": [R(0, "C", 2, stats=False), R(0, "C", 2), R(0, "C", 2, stats=False), R(2, "B", stats=False), R(2, "B")],
    "rows-only-output": [R(0, "B", od=False), R(0, "B", od=False), R(2, "B", od=False)],
}


def regression(ctx, w):
    runs = []
    for name, ops in REGRESSION.items():
        res = run_history(ctx, w, ops)
        runs.append(res)
        ctx.count("regression:" + name)
    # the regression histories are meaningful only if the configurations really give different results
    r0, r2 = w.reference(0, "B", "str", None, True), w.reference(2, "B", "str", None, True)
    if r0["status"] == "completed" and r2["status"] == "completed" and loose_eq(r0["rows"], r2["rows"]):
        ctx.notes.append("thresholds 0 and 0.9 give the same rows on input B: the threshold regression is vacuous")
        ctx.obligation("threshold-regression-nonvacuous", "harness", False, "input B no longer has an MCS row between the thresholds")
    r5, r6 = w.reference(5, "B", "str", None, True), w.reference(6, "B", "str", None, True)
    if r5["status"] == "completed" and r6["status"] == "completed" and loose_eq(r5["rows"], r6["rows"]):
        ctx.notes.append("thresholds 0.8668 and 0.8672 give the same rows on input B: the close-threshold regression is vacuous")
        ctx.obligation("close-threshold-regression-nonvacuous", "harness", False, "input B no longer has an MCS row of confidence 0.867")
    return runs


def quirk_and_exotic(ctx, w):
    """outside the property (foreign files that no operation of the code produces) — model correspondence only:
    a document with a `result` but no `stats` under the key of a failing batch; a directory named like an entry"""
    seq = w.batches_of(0, "D", "str", None)
    key = w.real_key(0, seq[0])
    ops = [{"kind": "putFile", "file": key + ".cache", "content": '{"result": [{"reaction": "stale"}]}'}, R(0, "D")]
    res = run_history(ctx, w, ops, check_statement=False)
    real = res[1][1]
    ctx.extra["quirk_result_without_stats"] = {"returned": real.get("rows"), "stats": real.get("stats")}
    # rows that json.dumps rejects: get_hash_key raises with cache=True, the uncached call completes (no completed cached
    # run, hence outside the statement; recorded in the evidence, see NOTES.md)
    import datetime

    w.new_dir()
    try:
        rows = [{"reaction": "C>>C", "when": datetime.date(2026, 1, 1)}]
        with contextlib.redirect_stderr(io.StringIO()):
            un = w.balancer(0, False).rebalance(copy.deepcopy(rows), output_dict=True)
            try:
                ca = w.balancer(0, True).rebalance(copy.deepcopy(rows), output_dict=True)
            except Exception as e:
                ca = "%s: %s" % (type(e).__name__, e)
        ctx.extra["unserialisable_extra_column"] = {"uncached": un, "cached": ca}
    finally:
        w.close()
    # a directory where the entry should go: os.replace fails, the result is still returned (statement only)
    w.new_dir()
    try:
        seq = w.batches_of(0, "A", "str", None)
        os.makedirs(os.path.join(w.dir, w.real_key(0, seq[0]) + ".cache"))
        hist = [R(0, "A"), R(0, "A")]
        for i, op in enumerate(hist):
            real = apply_real(w, op)
            statement(ctx, w, hist, i, op, real)
    finally:
        w.close()
    return [res]


def prefix_sweep(ctx, w, ci, name, bs, index, every=1):
    """every truncation prefix of one real entry: (a) the next run equals the uncached run and rewrites the entry,
    (b) `load_cache` gives {} for every proper prefix (law PrefixGarbage) and the document for the whole file (LoadEncode)"""
    CM = w.probe.batching.CacheManager
    w.new_dir()
    try:
        op = R(ci, name, bs)
        first = apply_real(w, op)
        seq = op["_batches"]
        key = w.real_key(ci, seq[index])
        path = os.path.join(w.dir, key + ".cache")
        if not os.path.isfile(path):
            ctx.corr_break("Cache.prefix-sweep", describe(op), "entry written", "no entry file %s" % key)
            return
        with open(path) as f:
            doc = f.read()
        expected_doc = w.doc(ci, seq[index])[0]
        if doc != expected_doc:
            ctx.corr_break("Cache.encode", describe(op), expected_doc, doc)
        n = 0
        law_broken = False
        for k in range(0, len(doc) + 1, every):
            with open(path, "w") as f:
                f.write(doc[:k])
            want = {} if k < len(doc) else json.loads(doc)
            try:
                loaded = CM(cache_dir=w.dir).load_cache(key)
            except Exception as e:  # the real load_cache let an exception out: the run below shows what that does
                loaded = "%s: %s" % (type(e).__name__, e)
            if not strict_eq(loaded, want) and not law_broken:
                law_broken = True
                ctx.obligation("law:PrefixGarbage/LoadEncode", "oracle-law", False, "prefix %d of %r loads as %r" % (k, doc[:80], loaded))
            hist = [op, {"kind": "truncate", "file": key + ".cache", "k": k}, op]
            real = apply_real(w, copy.deepcopy(op))
            if not statement(ctx, w, hist, 2, op, real):
                return
            hit = real["log"]["batches"][sum(1 for b in seq[:index] if b != 0)]["hit"]
            with open(path) as f:
                after = f.read()
            if hit != (k == len(doc)) or after != doc:
                ctx.corr_break("Cache.step (prefix %d)" % k, describe(op), {"hit": k == len(doc), "entry": "rewritten"}, {"hit": hit, "entry": after[:60]})
                return
            n += 1
        ctx.count("prefixes", n)
        ctx.traces += n
    finally:
        w.close()


def law_checks(ctx, w):
    """LoadEncode, type-strict, on every result document seen; determinism of the pipeline"""
    n = 0
    for (ck, bk), ent in w.probe.memo.items():
        if ent["rows"] is None:
            continue
        val = {"stats": ent["stats"], "result": ent["rows"]}
        try:
            back = json.loads(json.dumps(val))
        except Exception as e:
            ctx.notes.append("result of %s is not JSON-serialisable (%s): never cached, still transparent" % (bk[:60], e))
            continue
        n += 1
        if not strict_eq(back, val):
            mech = "cached-result-representation-differs" if loose_eq(back, val) else "cached-result-differs"
            ctx.violation(mech, {"config": list(ck), "batch": json.loads(bk)}, "json round trip changes the result: %r -> %r" % (val, back), CALL_SITE)
    ctx.obligation("law:LoadEncode (json round trip, type-strict) on %d result documents" % n, "oracle-law", True, "")
    ctx.obligation("assumption:pipeline deterministic per (configuration, batch)", "oracle-law", not w.probe.nondet, json.dumps(w.probe.nondet[:2]))
    ctx.count("result-documents", n)


def scan_corr(ctx):
    """`os.path.splitext` + the registration test of `CacheManager.__init__` vs `Cache.splitext` / `Cache.scanKey?`"""
    import synrbl.SynUtils.batching as batching

    alphabet = ["a", ".", "c", "cache", "tmp", "K", "CACHE", "7f", " ", "-"]
    names = {"ab.cache", "ab.cache.tmp", ".cache", "..cache", "a.", "..x", "a..cache", "README", "K.CACHE", "x.tmp", ".", "..", "a.b.c", "0" * 64 + ".cache", "0" * 64 + ".cache.tmp", "cache", ".cache.cache", "a.cache.", "a.cache..", "a.Cache"}
    for n in range(1, 5):
        for t in itertools.product(alphabet, repeat=n):
            s = "".join(t)
            if s and "/" not in s and s not in (".", ".."):
                names.add(s)
    names = sorted(names)
    ans = ctx.driver([{"op": "cacheScan", "names": names}])[0]
    d = tempfile.mkdtemp(prefix="synrbl_c12_scan_")
    try:
        sample = [n for n in names if n not in (".", "..")][:: max(1, len(names) // 400)] + ["ab.cache", "ab.cache.tmp", "a..cache", ".cache", "K.CACHE"]
        for n in sample:
            with open(os.path.join(d, n), "w") as f:
                f.write("")
        refs = batching.CacheManager(cache_dir=d)._CacheManager__cache_refs
        for n, k in zip(names, ans["keys"]):
            if n in sample:
                real = next((kk for kk, p in refs.items() if os.path.basename(p) == n), None)
                if real != k:
                    ctx.corr_break("Cache.scanKey? vs CacheManager.__init__", n, k, real)
                    break
    finally:
        shutil.rmtree(d, ignore_errors=True)
    bad = 0
    for n, se, k in zip(names, ans["splitext"], ans["keys"]):
        real = list(os.path.splitext(n))
        rk = real[0] if real[1].replace(".", "") == "cache" else None
        ctx.case(("scan", n), nontrivial=k is not None)
        if se != real or k != rk:
            bad += 1
            if bad <= 3:
                ctx.corr_break("Cache.splitext vs os.path.splitext", n, {"splitext": se, "key": k}, {"splitext": real, "key": rk})
    ctx.count("scan-names", len(names))
    ctx.traces += len(names)


def source_anchor(ctx):
    """the laws speak about `get_hash_key(batch, config=…)`: read from the source which configuration values are hashed
    and which constructor parameters exist; a constructor parameter that reaches the pipeline but not the key breaks KeySound"""
    from synrbl import Balancer

    src = textwrap.dedent(inspect.getsource(Balancer._Balancer__try_cache))
    hashed = set()
    for node in ast.walk(ast.parse(src)):
        if isinstance(node, ast.keyword) and node.arg == "config" and isinstance(node.value, ast.Dict):
            hashed = {k.value for k in node.value.keys if isinstance(k, ast.Constant)}
    params = [p for p in inspect.signature(Balancer.__init__).parameters if p != "self"]
    not_result_relevant = {"n_jobs", "batch_size", "cache", "cache_dir"}  # parallelism, batching (the batch is hashed), the cache itself
    missing = [p for p in params if p not in not_result_relevant and p not in hashed and p.replace("confidence_threshold", "confidence_threshold") not in hashed]
    ctx.obligation(
        "law:KeySound anchor — every result-relevant constructor parameter is hashed into the key", "source-anchor", not missing and bool(hashed),
        "hashed=%s constructor=%s missing=%s" % (sorted(hashed), params, missing),
    )
    ctx.extra["key_config"] = sorted(hashed)
    wsrc = inspect.getsource(__import__("synrbl.SynUtils.batching", fromlist=["CacheManager"]).CacheManager.write_cache)
    ctx.extra["write_cache_uses_replace"] = "os.replace" in wsrc


# ------------------------------------------------------------------------------------------------ tiers
def random_histories(ctx, w, n, max_ops, statement_on=True):
    rng = ctx.rng
    runs = []
    for _ in range(n):
        res = run_history(ctx, w, lambda hist: gen_op(ctx, w, rng, hist), max_ops=rng.randint(2, max_ops), check_statement=statement_on)
        runs.append(res)
        if not res[3] and len(ctx.violations) > 5:
            break
    return runs


def exhaustive_histories(ctx, w, max_len):
    """all histories of length <= max_len over 3 configurations x 2 inputs (batch size 2): runs, three kinds of killed
    runs per (configuration, input), a truncation and a deletion of one entry"""
    alphabet = []
    for ci in (0, 1, 2):
        for inp in ("B", "C"):
            alphabet.append(R(ci, inp, 2))
            alphabet.append(X("crash", ci, inp, 0, "tmpPrefix", 25, bs=2))
            alphabet.append(X("crash", ci, inp, 1, "tmpComplete", bs=2))
            alphabet.append(X("crash", ci, inp, 0, "afterRename", bs=2))
    alphabet.append(T(0, "B", 0, "half", bs=2))
    alphabet.append(T(0, "B", 0, 0, bs=2))
    runs, total = [], 0
    for n in range(1, max_len + 1):
        for t in itertools.product(range(len(alphabet)), repeat=n):
            if alphabet[t[-1]]["kind"] != "run":
                continue  # a history that does not end in a completed run states nothing new
            ops = [copy.deepcopy(alphabet[i]) for i in t]
            for o in ops:
                if o["kind"] == "truncate":
                    o.pop("file", None)
            runs.append(run_history(ctx, w, ops))
            total += 1
            if len(runs) >= 2000:
                compare_with_model(ctx, "exhaustive", runs)
                runs = []
            if len(ctx.violations) > 5:
                return total
    compare_with_model(ctx, "exhaustive", runs)
    return total


def search(ctx):
    """a proof obligation or the correspondence broke: hunt for a history on which the real code is not transparent"""
    with Probe(ctx) as probe:
        w = World(ctx, probe)
        try:
            regression(ctx, w)
            if not ctx.violations:
                random_histories(ctx, w, 200, 6)
            if not ctx.violations:
                prefix_sweep(ctx, w, 0, "A", None, 0)
        finally:
            w.close()


def run(ctx):
    ctx.rule = (
        "histories of operations over one temporary cache directory on the real Balancer(cache=True): regression histories "
        "(%d fixed ones: threshold 0/0.5/0.9 over an input with MCS rows of confidence 0.156 and 0.867, column names, truncated "
        "/ emptied entry, killed at k bytes of json.dump / before os.replace / after it / while the batch is a hit / after the loop, "
        "OSError in write_cache, inputs sharing the first row, overlapping inputs under batch sizes None/1/2, a batch on which the "
        "pipeline raises, empty input, the same key twice in one run, rows-only output) + seeded random histories (quick 30 of <= 4 "
        "operations, thorough 300 of <= 6 and every history of <= 3 operations over 3 configurations x 2 inputs x {run, 3 kinds of "
        "killed run} + 2 truncations) drawn from: run / killed run / run with failing write over 5 configurations x 7 inputs x "
        "{list of str, list of dict with extra columns} x batch size {None,1,2}; truncate an entry to a prefix; overwrite an entry "
        "with foreign non-documents; stray files (x.tmp, README, notes.cache, .cache, <entry>.tmp), a well-formed wrong document "
        "under an entry's name in a sub-directory, directories; delete. Every truncation prefix of one entry (quick: a 1-row "
        "entry, thorough: also a 4-row entry). After every completed run: rows and statistics == the same call with cache=False "
        "(type- and order-strict); after every operation: outcome, hit pattern, per-batch results and exact directory listing == "
        "the Lean model (non-trivial = a run with at least one cache hit or after a crash/corruption; distinct by history)"
        % len(REGRESSION)
    )
    ctx.assumptions = [
        "KeySound: SHA-256 over json.dumps(batch, sort_keys=True) + json.dumps(config, sort_keys=True) is injective on "
        "(batch, configuration) up to what JSON identifies (tuple/list, int/str keys) — trusted; the source anchor checks that "
        "every result-relevant constructor parameter is part of the hashed configuration",
        "the pipeline is a function of (configuration, batch): checked by computing every distinct pair twice; the histories "
        "reuse these real results (a memo wrapped around the real __run_pipeline) so that thousands of runs stay cheap",
        "LoadEncode / PrefixGarbage: json round trip is the identity on result documents and no proper prefix of a document "
        "loads — both checked on the real documents of this run",
        "a kill is simulated in-process (BaseException raised inside the real write_cache at the chosen point; the bytes "
        "written so far are flushed by the `with` block) — power loss with unflushed data, concurrent runs over one directory "
        "and foreign well-formed documents placed under an entry's name are outside the model (Op.Admissible)",
        "inputs whose extra columns are not JSON-serialisable make get_hash_key raise with cache=True (no completed run: outside "
        "the statement; see NOTES.md)",
    ]
    quick = ctx.tier == "quick"
    built = ctx.build([MODULE])
    drv = ctx.build_driver()
    if built:
        ctx.audit(MODULE)
    source_anchor(ctx)
    with Probe(ctx) as probe:
        w = World(ctx, probe, fresh_balancers=False)
        try:
            runs = regression(ctx, w)
            runs += quirk_and_exotic(ctx, w)
            w.fresh = True  # the first random histories construct Balancer(cache=True, cache_dir=…) anew for every call
            runs += random_histories(ctx, w, 8 if quick else 30, 4)
            w.fresh = False
            runs += random_histories(ctx, w, 22 if quick else 270, 4 if quick else 6)
            if drv:
                compare_with_model(ctx, "regression+random", runs)
                scan_corr(ctx)
            prefix_sweep(ctx, w, 0, "F", 1, 0)
            if not quick:
                prefix_sweep(ctx, w, 2, "B", None, 0)
                prefix_sweep(ctx, w, 0, "A", None, 0)
                if drv:
                    n = exhaustive_histories(ctx, w, 3)
                    ctx.count("exhaustive-histories", n)
                    ctx.exhaustive = True
            law_checks(ctx, w)
            ctx.extra["real_pipeline_invocations"] = probe.pipeline_calls
            ex = runs[0]
            ctx.sample({"history": [describe(o) for o in ex[0]], "hits": [[b["hit"] for b in r["log"]["batches"]] for r in ex[1] if "log" in r]})
        finally:
            w.close()
    return ctx.finish(search)
