"""C14 — composition-determined outcomes ignore how the SMILES is written."""
import random
from collections import Counter

from rdkit import Chem

import chem
import pipeline
from _rowmachine import prepare

MODULE = "SynRBLModel.Properties.C14"


# reactions whose reactants hold the tokens the rule constraint treats as hydrogen acceptors (alkali metals, hydride) or
# molecules that merely contain such an atom, in first / middle / last position: the verdict must not depend on where the
# token stands or how its neighbours are written
MARKER_BASE = [
    "CCO.[Na+].[H-]>>CC[O-].[Na+]", "[H-].[Na+].CCO>>CC[O-].[Na+]", "CC(C)(C)O.[K+].[H-]>>CC(C)(C)[O-].[K+]", "[Li+].[H-].OCC>>[Li+].[O-]CC",
    "CCO.CCO.[Na].[Na]>>CC[O-].CC[O-].[Na+].[Na+]", "[Na].[Na].OCC.OCC>>CC[O-].CC[O-].[Na+].[Na+]", "OCCO.[K].[K]>>[O-]CC[O-].[K+].[K+]",
    "[Li].[Li].OCCCO>>[O-]CCC[O-].[Li+].[Li+]", "CCO.CO[Na]>>CC=O.CO[Na]", "[Na]OC.CCO>>CC=O.[Na]OC", "OC(C)C.CC(C)(C)O[K]>>CC(C)=O.CC(C)(C)O[K]",
    "CC(=O)C.[Na+].[H-]>>CC(O)C.[Na+]", "c1ccccc1O.[K].[K].Oc1ccccc1>>[O-]c1ccccc1.[O-]c1ccccc1.[K+].[K+]",
    # given molecules written with a leading explicit hydrogen, in first and in later position (their text then contains the
    # marker '.[H]' although no hydrogen atom was appended)
    "[H]\\C(CC)=N/CC.Cc1ccc(cc1)S(=O)(=O)CN=C>>CCN1C=NC=C1CC.Cc1ccc(cc1)S(=O)=O", "CC(=O)Cl.[H]O[H]>>CC(=O)O", "[H]O[H].CC(=O)Cl>>CC(=O)O",
    "CCBr.[H]N([H])[H]>>CCN", "[H]N([H])[H].CCBr>>CCN", "CC(=O)OC(C)=O.[H]OC>>COC(C)=O", "CS(=O)(=O)Cl.[H]OCC>>CCOS(C)(=O)=O",
]


def respell(rng, rxn, mode):
    """an equivalent spelling of a (map-free) reaction"""
    sides = rxn.split(">>")
    out = []
    for side in sides:
        toks = side.split(".")
        new = []
        for t in toks:
            m = Chem.MolFromSmiles(t)
            if m is None:
                return None
            if mode == "random":
                s = Chem.MolToSmiles(m, doRandom=True)
            elif mode == "kekule":
                mk = Chem.Mol(m)
                try:
                    Chem.Kekulize(mk, clearAromaticFlags=True)
                    s = Chem.MolToSmiles(mk, kekuleSmiles=True)
                except Exception:
                    s = t
            elif mode == "maps":
                mm = Chem.Mol(m)
                for a in mm.GetAtoms():
                    a.SetAtomMapNum(rng.randint(1, 99))
                s = Chem.MolToSmiles(mm)
            else:
                s = t
            new.append(s)
        if mode == "shuffle":
            rng.shuffle(new)
        if mode == "reverse":
            new.reverse()
        out.append(".".join(new))
    return ">>".join(out)


def canon_side(side):
    c = Counter()
    for t in side.split("."):
        s = chem.strip_maps(t)
        c[s if s is not None else t] += 1
    return c


def added(row):
    """multiset of molecules added on each side, canonical"""
    ia, ib = row["input_reaction"].split(">>")
    ga, gb = row["reaction"].split(">>")
    return canon_side(ga) - canon_side(ia), canon_side(gb) - canon_side(ib)


def stage_rows(tr, name):
    rows = []
    for bt in tr["batches"]:
        rows += bt["stages"].get(name, [])
    return rows


def statement(ctx, base_tr, var_tr, variants, skip=0):
    """compare at the stage before post-processing (the reagent template choice is exempt); the first `skip` rows of the
    variant run are context rows that are not compared"""
    b = stage_rows(base_tr, "v_rb")
    v = stage_rows(var_tr, "v_rb")[skip:]
    bf = base_tr["out"]
    vf = var_tr["out"][skip:] if var_tr["out"] is not None else None
    if len(v) != len(variants) or vf is None:
        ctx.violation("variant-run-lost-rows", {"n": len(variants)}, str(var_tr["error"]), "balancing.py")
        return
    for (i, mode, text), rv, rfin in zip(variants, v, vf):
        rb = b[i]
        fin_b = bf[i]
        if not (rb["solved"] and rb["solved_by"] in ("input-balanced", "rule-based")):
            continue
        ctx.case(("c14", text, mode), nontrivial=rb["solved_by"] == "rule-based")
        ctx.count("mode:" + mode)
        same = rv["solved"] == rb["solved"] and rv["solved_by"] == rb["solved_by"] and added(rv) == added(rb)
        if not same:
            ctx.violation("outcome-depends-on-spelling:" + mode, {"reaction": rb["input_reaction"], "variant": text},
                          "base: solved=%s by=%s %s | variant: solved=%s by=%s %s" % (
                              rb["solved"], rb["solved_by"], rb["reaction"], rv["solved"], rv["solved_by"], rv["reaction"]),
                          "synrbl/rule_based.py / synthetic_rule_constraint.py")
            return
        if rfin.get("solved") != fin_b.get("solved") or rfin.get("solved_by") != fin_b.get("solved_by"):
            ctx.violation("final-verdict-depends-on-spelling:" + mode, {"reaction": rb["input_reaction"], "variant": text},
                          "base %s/%s variant %s/%s" % (fin_b.get("solved"), fin_b.get("solved_by"), rfin.get("solved"), rfin.get("solved_by")),
                          "synrbl/balancing.py")
            return


def build(ctx, n):
    from synrbl.SynUtils.chem_utils import remove_atom_mapping

    mix = pipeline.workload_mix(ctx)
    cand = [(inp, r) for inp, r in zip(mix["inputs"], mix["out"] or [])
            if r.get("solved") and r.get("solved_by") in ("input-balanced", "rule-based") and pipeline.is_small(inp, 60)]
    rng = ctx.rng
    rng.shuffle(cand)
    base = [remove_atom_mapping(inp) for inp, _ in cand[:n]] + list(MARKER_BASE)
    variants = []
    for i, s in enumerate(base):
        for mode in ("random", "kekule", "maps", "shuffle", "reverse"):
            t = respell(rng, s, mode)
            if t is not None and t != s:
                variants.append((i, mode, t))
    return base, variants


def explore(ctx, n, compare=True):
    base, variants = build(ctx, n)
    bt = pipeline.traced_run(base, n_jobs=12)
    vt = pipeline.traced_run([v[2] for v in variants], n_jobs=12)
    if compare:
        pipeline.compare_trace(ctx, bt)
        pipeline.compare_trace(ctx, vt)
    if bt["out"] is None or vt["out"] is None:
        ctx.corr_break("Pipeline:run-raised", {"n": len(base)}, "model never raises", bt["error"] or vt["error"])
        return base, variants
    statement(ctx, bt, vt, variants)
    # the configuration that keeps atom maps (`remove_aam = False`): the map-numbered spellings go through every stage with
    # their maps on — markers, tokens and compositions must be read the same way (traced, not compared with the model)
    from synrbl import Balancer

    kb = Balancer(n_jobs=12)
    kb.remove_aam = False
    mv = [v for v in variants if v[1] == "maps"]
    if mv:
        kt = pipeline.traced_run([v[2] for v in mv], balancer=kb)
        ctx.count("keep-maps-configuration-rows", len(mv))
        if kt["out"] is None:
            ctx.violation("variant-run-lost-rows", {"configuration": "remove_aam=False"}, str(kt["error"]), "balancing.py")
        else:
            statement(ctx, bt, kt, [(i, "maps-kept", t) for i, _, t in mv])
    # the same rows inside ONE batch processed by ONE worker (n_jobs=1: per-batch memos are really shared between rows), behind
    # context rows that contain the same molecule strings with other multiplicities (A.A>>B, A>>B.B): the outcome of a row must
    # not depend on what the batch contained before it
    k = min(len(base), 60)
    decoys = []
    for s in base[:k]:
        a, b = s.split(">>")
        decoys += [a + "." + a + ">>" + b, a + ">>" + b + "." + b]
    inbatch = [(i, "same-batch", s) for i, s in enumerate(base[:k])] + [v for v in variants if v[0] < k]
    ct = pipeline.traced_run(decoys + [v[2] for v in inbatch], n_jobs=1)
    if compare:
        pipeline.compare_trace(ctx, ct)
    if ct["out"] is None:
        ctx.corr_break("Pipeline:run-raised", {"n": len(inbatch)}, "model never raises", ct["error"])
    else:
        statement(ctx, bt, ct, inbatch, skip=len(decoys))
    return base, variants


def search(ctx):
    explore(ctx, 150, compare=False)


def run(ctx):
    built, drv = prepare(
        ctx,
        MODULE,
        "reactions of the shared workload whose outcome is input-balanced or rule-based, each rewritten as: RDKit random SMILES "
        "per molecule, kekulised form, random atom-map numbers, shuffled and reversed molecule order per side, plus 13 reactions whose "
        "reactants hold alkali-metal / hydride tokens or molecules containing such atoms in first / middle / last position; base and variants run through "
        "the real pipeline (traced and compared with the Lean row machine); statement at the stage before post-processing: same "
        "verdict (solved, method) and the same multiset of added molecules per side (canonical SMILES); final verdict equal; the "
        "base rows and their variants are run once more inside one single-worker batch behind context rows with the same "
        "molecule strings in other multiplicities (A.A>>B, A>>B.B) and must keep their outcome "
        "(non-trivial = rule-based base outcome; distinct by variant text and mode)",
        ["the choice of reagent template is exempt (comparison before post-processing)",
         "RDKit's respellings are trusted to denote the same molecule"],
    )
    if drv:
        base, variants = explore(ctx, 30 if ctx.tier == "quick" else 400)
        if variants:
            ctx.sample({"base": base[variants[0][0]], "mode": variants[0][1], "variant": variants[0][2]})
    return ctx.finish(search)
