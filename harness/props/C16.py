"""C16 — functional-group recognition depends only on the molecular graph.

Correspondence: the real `is_functional_group` / `pattern_match` / `get_mapping_permutations` against the Lean model
(`Model/FGMatch.lean`) on exported molecule graphs, before and after `Chem.RenumberAtoms`.
Independent statement (real code only, RDKit as the reference):
  (a) invariance    answer(mol, idx) == answer(renumbered mol, new idx)      for every group and every structure
  (b) completeness  RDKit finds an occurrence of the structure containing idx  =>  pattern_match is positive
  (c) soundness     pattern_match is positive  =>  RDKit finds an occurrence containing idx
(c) is false of the current code (per-branch visited lists, ring closures never checked): such inputs are reported with
the mechanism `fg-match-without-real-occurrence`; a positive answer whose returned mapping is not even locally
consistent (symbols / bond types along the matched tree) gets a different mechanism, as do (a) and (b).
"""
import itertools
import json

import chem
import gen_fg
from core import quiet

quiet()
MODULE = "SynRBLModel.Properties.C16"
CALL_SITE = "synrbl/SynUtils/functional_group_utils.py:pattern_match"
M_SOUND = "fg-match-without-real-occurrence"
M_LABEL = "fg-match-violates-labels"
M_INVAR = "fg-answer-changes-under-renumbering"
M_COMPL = "fg-occurrence-not-found"
M_RAISE = "fg-matcher-raises"

# constructed molecules: the two witnesses of Properties/C16.lean first, then small rings, fused / macrocyclic
# aromatics, hypervalent centres (many neighbours = many permutations), every group of the table at least once
SPECIALS = [
    "C1OCO1", "Oc1ncccc1O", "O=C1OC1", "CC(C)OC(C)OC", "Oc1ccc2cccc-2cc1", "Oc1cccc2cccc2c1", "C1OC1", "C1CO1",
    "O1COCOC1", "C1OCOCO1", "O=C1OC(=O)C1", "O=C1CCC(=O)O1", "Oc1ccccc1", "Oc1ccc[nH]1", "COc1ccccc1", "Nc1ccccc1",
    "Oc1ccc2ccccc2c1", "Oc1cccc2ccccc12", "c1ccc2[nH]ccc2c1", "Oc1cc2ccccc2[nH]1", "Oc1ccco1", "Oc1cccs1", "Oc1ccn[nH]1",
    "Oc1cc[nH]c1", "Oc1cccc[nH]1", "O=c1cccc[nH]1", "Oc1cccnc1", "Oc1ncccn1", "Oc1ccc(O)cc1", "Oc1ccccc1O",
    "CCO", "COC", "C=CO", "NC=O", "NC(=O)O", "NC(N)=O", "CC(=O)Cl", "OCO", "COCO", "COCOC", "O=C(O)O", "COC(=O)OC",
    "CC(=O)OC(C)=O", "CC(=O)OC", "CC(=O)O", "CN", "CNC", "CN(C)C", "C#N", "CC#N", "NO", "CNO", "N=O", "CN=O", "O=NO",
    "C[N+](=O)[O-]", "CSC", "CC(=O)SC", "CC(O)=S", "COC(C)=S", "CC=O", "CC(C)=O", "O=CC=O", "OC(O)O", "OC(O)(O)O",
    "FS(F)(F)(F)(F)F", "OP(O)(O)=O", "OS(O)(=O)=O", "CS(C)(=O)=O", "O[Si](O)(O)O", "OB(O)O", "C1CCOC1", "C1COCCO1",
    "O=C1CCCO1", "O=C1CCCN1", "O=C1NC(=O)c2ccccc12", "OC1CC1", "OC1=CC=CC1", "OC1=CCC=C1", "Oc1cccc1",
    "C1=COC=C1", "c1ccoc1", "N1C=CC=C1", "OC1OCCO1", "OC1OC1", "C1OC2OC12", "O1C2OC1O2", "OC12OC1O2", "NC1OC1",
    "N#CC#N", "ON=O", "O=NON=O", "NOC", "NOCO", "O=C(N)OC", "CC(=O)NC(C)=O", "SC(=O)O", "OC(=S)S", "[O-]C(=O)C",
    "C[O-]", "C[NH3+]", "[NH4+]", "O", "N", "S", "[OH-]", "OO", "COOC", "NN", "CSSC", "ClCCl", "BrCCO", "C(F)(F)(F)O",
    "OCC(O)C(O)C(O)C(O)C=O", "OC1C(O)C(O)C(O)C(O)C1O", "C1CCCCCCCCCCC(=O)OCCCCCCC1", "c1ccc2cc3ccccc3cc2c1",
    "c1cc2ccc3cccc4ccc(c1)c2c34", "Oc1ccc2ccc3cccc4ccc1c2c34", "c1ccc2c(c1)[nH]c1ccccc12", "Oc1nc2ccccc2[nH]1",
    # centres with six neighbours that patterns run THROUGH (720 neighbour orders each), in several atom orders
    "CS(F)(F)(F)(F)C", "FS(C)(C)(F)(F)F", "FS(F)(C)(F)(F)C", "COS(F)(F)(F)(F)OC", "CS(F)(F)(F)(F)N", "CCS(F)(F)(F)(F)CC",
    "FS(F)(F)(F)(F)c1ccccc1", "C[P-](F)(F)(F)(F)C", "CO[P-](OC)(OC)(OC)(OC)OC", "CS(C)(F)(F)(F)OC", "OS(O)(O)(O)(O)O",
    "CS(O)(F)(F)(F)C", "NS(F)(F)(F)(F)N", "CS(F)(F)(F)(F)SC", "FS(F)(F)(C)(F)OC",
]


# ------------------------------------------------------------------------------------------------ real code
def load_fg():
    return gen_fg.load_fgutils()


def structures(fg):
    """distinct pattern / group / anti-pattern graphs of the table: [(mol, graph, label)]"""
    from rdkit import Chem

    out = {}
    for name, cfg in fg.functional_group_config.items():
        for kind, mols in (("pattern", cfg.pattern), ("groups", cfg.groups), ("anti", cfg.anti_pattern)):
            for m in mols:
                g = gen_fg.mol_graph(m)
                out.setdefault(json.dumps(g), (m, g, "%s/%s:%s" % (name, kind, Chem.MolToSmiles(m))))
    return list(out.values())


def real_fg(fg, mol, name, idx):
    try:
        return bool(fg.is_functional_group(mol, name, idx))
    except NotImplementedError:
        return None
    except Exception as e:  # noqa: BLE001
        return "raises:" + type(e).__name__


def real_pm(fg, mol, idx, pmol, panchor=None):
    """(match, sorted set of (atom, pattern atom)) - the mapping only when positive"""
    try:
        r = fg.pattern_match(mol, idx, pmol, panchor) if panchor is not None else fg.pattern_match(mol, idx, pmol)
    except Exception as e:  # noqa: BLE001
        return "raises:" + type(e).__name__, []
    if r[0]:
        return True, sorted(set((int(a), int(b)) for a, b in r[1]))
    return False, []


def renumber(rng, mol):
    """(renumbered mol, perm) with perm[old index] = new index"""
    from rdkit import Chem

    n = mol.GetNumAtoms()
    new_order = list(range(n))
    rng.shuffle(new_order)  # new_order[new index] = old index
    perm = [0] * n
    for new, old in enumerate(new_order):
        perm[old] = new
    return Chem.RenumberAtoms(mol, new_order), perm


def rebuilt_copy(mol, new_order, bonds):
    """copy with atom `new_order[i]` at position i and the bonds added in the given order"""
    from rdkit import Chem

    perm = [0] * mol.GetNumAtoms()
    rw = Chem.RWMol()
    for new, old in enumerate(new_order):
        perm[old] = new
        rw.AddAtom(Chem.Atom(mol.GetAtomWithIdx(old)))
    for b in bonds:
        i, j = perm[b.GetBeginAtomIdx()], perm[b.GetEndAtomIdx()]
        rw.AddBond(i, j, b.GetBondType())
        rw.GetBondBetweenAtoms(i, j).SetIsAromatic(b.GetIsAromatic())
    return rw.GetMol(), perm


def shuffled_copy(rng, mol):
    """(copy, perm): atoms in a random order AND bonds added in a random order with random direction, so that every
    GetNeighbors() list comes out in a different order (RenumberAtoms keeps the bond order, hence the relative order
    of the neighbours).  Built with RWMol, not re-parsed: symbols and bond types are copied, nothing is re-perceived."""
    from rdkit import Chem

    n = mol.GetNumAtoms()
    new_order = list(range(n))
    rng.shuffle(new_order)
    perm = [0] * n
    rw = Chem.RWMol()
    for new, old in enumerate(new_order):
        perm[old] = new
        rw.AddAtom(Chem.Atom(mol.GetAtomWithIdx(old)))
    bonds = list(mol.GetBonds())
    rng.shuffle(bonds)
    for b in bonds:
        i, j = perm[b.GetBeginAtomIdx()], perm[b.GetEndAtomIdx()]
        if rng.random() < 0.5:
            i, j = j, i
        rw.AddBond(i, j, b.GetBondType())
        rw.GetBondBetweenAtoms(i, j).SetIsAromatic(b.GetIsAromatic())
    return rw.GetMol(), perm


# ------------------------------------------------------------------------------------------------ reference
def rdkit_cover(mol, pmol):
    """atoms of `mol` that lie in some occurrence of `pmol` (RDKit substructure search: element + bond type)"""
    cov = set()
    for mt in mol.GetSubstructMatches(pmol, uniquify=True, maxMatches=20000):
        cov.update(mt)
    return cov


def brute_cover(g, p, limit=200000):
    """the same by plain backtracking over (symbol, bond type) - cross-check that RDKit compares like with like"""
    n, k = len(g["syms"]), len(p["syms"])
    gb = {}
    for i, j, t in g["bonds"]:
        gb[(i, j)] = gb[(j, i)] = t
    pb = [(i, j, t) for i, j, t in p["bonds"]]
    cov = set()
    steps = [0]

    def rec(img):
        steps[0] += 1
        if steps[0] > limit:
            raise OverflowError
        q = len(img)
        if q == k:
            cov.update(img)
            return
        for b in range(n):
            if b in img or g["syms"][b] != p["syms"][q]:
                continue
            ok = True
            for i, j, t in pb:
                if (i == q and j < q and gb.get((b, img[j])) != t) or (j == q and i < q and gb.get((img[i], b)) != t):
                    ok = False
                    break
            if ok:
                rec(img + [b])

    rec([])
    return cov


def locally_consistent(g, p, idx, mapping):
    """necessary for any correct positive answer: the anchor is matched, every pair has equal symbols and every pair but
    one start pair hangs on a matched pair through a pattern bond and a molecule bond of the same type"""
    gb = {}
    for i, j, t in g["bonds"]:
        gb[(i, j)] = gb[(j, i)] = t
    pb = {}
    for i, j, t in p["bonds"]:
        pb[(i, j)] = pb[(j, i)] = t
    if not any(a == idx for a, _ in mapping):
        return False
    for a, q in mapping:
        if a >= len(g["syms"]) or q >= len(p["syms"]) or g["syms"][a] != p["syms"][q]:
            return False
    if {q for _, q in mapping} != set(range(len(p["syms"]))):
        return False  # the table's structures are connected: every pattern atom must be matched
    roots = 0
    for a, q in mapping:
        if not any((q, q2) in pb and gb.get((a, a2)) == pb[(q, q2)] for a2, q2 in mapping if (a2, q2) != (a, q)):
            roots += 1
    return roots == 0 or len(mapping) == 1


# ------------------------------------------------------------------------------------------------ molecules
def molecules(ctx, n_corpus, max_atoms):
    from rdkit import Chem

    rng = ctx.rng
    pool = chem.unmapped_corpus_molecules()
    smis = list(SPECIALS) + rng.sample(pool, min(n_corpus, len(pool)))
    out = []
    for s in smis:
        m = Chem.MolFromSmiles(s)
        if m is None or m.GetNumAtoms() == 0 or m.GetNumAtoms() > max_atoms:
            continue
        out.append((s, m))
    return out


def pick_atoms(rng, mol, n_carbon=1):
    het = [a.GetIdx() for a in mol.GetAtoms() if a.GetSymbol() not in ("C", "H")]
    car = [a.GetIdx() for a in mol.GetAtoms() if a.GetSymbol() == "C"]
    return het + rng.sample(car, min(n_carbon, len(car)))


# ------------------------------------------------------------------------------------------------ the checks
class Run:
    def __init__(self, ctx, fg):
        self.ctx = ctx
        self.fg = fg
        self.names = list(fg.functional_group_config.keys())
        self.structs = structures(fg)
        self.reported = {}
        self.parity = 0

    def violate(self, mech, witness, detail, cap=4):
        k = self.reported.get(mech, 0)
        self.reported[mech] = k + 1
        self.ctx.count("violations/" + mech)
        if k < cap:
            self.ctx.violation(mech, witness, detail, CALL_SITE)

    def real_rows(self, mol, atoms):
        fgrow = [[real_fg(self.fg, mol, nm, a) for nm in self.names] for a in atoms]
        pmrow = [[real_pm(self.fg, mol, a, pm) for pm, _, _ in self.structs] for a in atoms]
        return fgrow, pmrow

    def statement(self, smi, mol, g, atoms, fgrow, pmrow, mol2, perm, fgrow2, pmrow2, brute=False):
        """the independent statement on the real answers"""
        ctx = self.ctx
        covers = [rdkit_cover(mol, pm) for pm, _, _ in self.structs]
        self.last_covers = covers
        if brute:
            for (pm, pg, lab), cov in zip(self.structs, covers):
                try:
                    bc = brute_cover(g, pg)
                except OverflowError:
                    continue
                ctx.count("reference/brute-force-cross-checks")
                if bc != cov:
                    ctx.count("reference/rdkit-vs-brute-force-differs")
                    ctx.notes.append("RDKit substructure cover differs from (symbol, bond type) embedding: %s %s" % (smi, lab))
        for ai, a in enumerate(atoms):
            a2 = perm[a]
            for ni, nm in enumerate(self.names):
                r1, r2 = fgrow[ai][ni], fgrow2[ai][ni]
                ctx.case(("fg", smi, a, nm), nontrivial=(r1 is True))
                if isinstance(r1, str) or isinstance(r2, str):
                    self.violate(M_RAISE, {"smiles": smi, "atom": a, "group": nm}, "answers %s / %s" % (r1, r2))
                elif r1 != r2:
                    self.violate(
                        M_INVAR,
                        {"smiles": smi, "atom": a, "group": nm, "perm": perm},
                        "is_functional_group: %s before, %s after renumbering (atom %d -> %d)" % (r1, r2, a, a2),
                    )
            for si, (pm, pg, lab) in enumerate(self.structs):
                (m1, map1), (m2, _) = pmrow[ai][si], pmrow2[ai][si]
                ctx.case(("pm", smi, a, lab), nontrivial=(m1 is True))
                if isinstance(m1, str) or isinstance(m2, str):
                    self.violate(M_RAISE, {"smiles": smi, "atom": a, "pattern": lab}, "answers %s / %s" % (m1, m2))
                    continue
                if m1 != m2:
                    self.violate(
                        M_INVAR,
                        {"smiles": smi, "atom": a, "pattern": lab, "perm": perm},
                        "pattern_match: %s before, %s after renumbering (atom %d -> %d)" % (m1, m2, a, a2),
                    )
                ref = a in covers[si]
                if ref and not m1:
                    self.violate(M_COMPL, {"smiles": smi, "atom": a, "pattern": lab}, "RDKit finds an occurrence containing the atom")
                if m1 and not ref:
                    if locally_consistent(g, pg, a, map1):
                        ctx.count("soundness/known-defect-hits")
                        self.violate(
                            M_SOUND,
                            {"smiles": smi, "atom": a, "pattern": lab},
                            "pattern_match is positive, RDKit finds no occurrence containing the atom; mapping %s" % (map1,),
                        )
                    else:
                        self.violate(
                            M_LABEL,
                            {"smiles": smi, "atom": a, "pattern": lab},
                            "positive answer whose mapping breaks symbols / bond types: %s" % (map1,),
                        )
                if m1 and ref:
                    ctx.count("soundness/positive-and-real")

    def correspondence(self, items):
        """items: [(smi, graph, atoms, fgrow, pmrow, covers)] - compare with the driver"""
        ctx = self.ctx
        ops = []
        for smi, g, atoms, fgrow, pmrow, covers in items:
            ops.append({"op": "fgAll", "g": g, "atoms": atoms})
            if pmrow is not None:
                ops.append({"op": "patternAll", "g": g, "patterns": [pg for _, pg, _ in self.structs], "atoms": atoms, "hyp": True})
        ans = iter(ctx.driver(ops))
        for smi, g, atoms, fgrow, pmrow, covers in items:
            r = next(ans)
            if r.get("names") != self.names:
                ctx.corr_break("FGMatch/table", {"smiles": smi}, r.get("names"), self.names)
                return
            if not r.get("wf"):
                ctx.corr_break("FGMatch/graph-export", {"smiles": smi}, "graph is not well-formed", g)
            for ai, a in enumerate(atoms):
                ctx.traces += 1
                if r["fg"][ai] != fgrow[ai]:
                    bad = [nm for nm, x, y in zip(self.names, r["fg"][ai], fgrow[ai]) if x != y]
                    ctx.corr_break("FGMatch/is_functional_group", {"smiles": smi, "atom": a, "groups": bad, "graph": g}, r["fg"][ai], fgrow[ai])
            if pmrow is None:
                continue
            r = next(ans)
            for ai, a in enumerate(atoms):
                for si, (pm, pg, lab) in enumerate(self.structs):
                    mm, mmap, _, hyp = r["res"][ai][si]
                    rm, rmap = pmrow[ai][si]
                    mmap = sorted(set((x, y) for x, y in mmap)) if mm else []
                    if mm != rm or mmap != rmap:
                        ctx.corr_break(
                            "FGMatch/pattern_match", {"smiles": smi, "atom": a, "pattern": lab, "graph": g}, [mm, mmap], [rm, rmap]
                        )
                    if rm is True and hyp:
                        # an instance of C16_sound_partial: its hypotheses hold, so the occurrence must exist
                        ctx.count("soundness/positive-covered-by-C16_sound_partial")
                        if a not in covers[si]:
                            ctx.corr_break(
                                "FGMatch/C16_sound_partial-instance", {"smiles": smi, "atom": a, "pattern": lab, "graph": g},
                                "hypotheses hold and the answer is positive", "RDKit finds no occurrence",
                            )

    def one_batch(self, mols, with_pm=True, brute=False):
        """real answers + statement + correspondence for a list of (smiles, mol)"""
        ctx = self.ctx
        items = []
        renum_ops = []
        for smi, mol in mols:
            atoms = pick_atoms(ctx.rng, mol)
            if not atoms:
                continue
            g = gen_fg.mol_graph(mol)
            self.parity += 1
            if self.parity % 2:
                mol2, perm = renumber(ctx.rng, mol)
                ctx.count("copies/Chem.RenumberAtoms")
            else:
                mol2, perm = shuffled_copy(ctx.rng, mol)
                ctx.count("copies/atoms-and-bonds-shuffled")
            g2 = gen_fg.mol_graph(mol2)
            atoms2 = [perm[a] for a in atoms]
            fgrow, pmrow = self.real_rows(mol, atoms)
            fgrow2, pmrow2 = self.real_rows(mol2, atoms2)
            self.statement(smi, mol, g, atoms, fgrow, pmrow, mol2, perm, fgrow2, pmrow2, brute=brute)
            items.append((smi, g, atoms, fgrow, pmrow if with_pm else None, self.last_covers))
            items.append((smi + " (renumbered)", g2, atoms2, fgrow2, None, None))
            renum_ops.append({"op": "renumCheck", "g": g, "g2": g2, "perm": perm})
            ctx.count("molecules")
            ctx.count("atoms", len(atoms))
            ctx.count("ring-molecules" if mol.GetRingInfo().NumRings() else "acyclic-molecules")
        self.correspondence(items)
        for op, r in zip(renum_ops, ctx.driver(renum_ops)):
            ctx.case(None, nontrivial=False)
            if not r.get("renum"):
                ctx.corr_break("FGMatch/Renum", {"perm": op["perm"], "g": op["g"], "g2": op["g2"]},
                               "Chem.RenumberAtoms output does not satisfy the hypothesis `Renum`", None)
        return items

    def occurs_vs_rdkit(self, mols):
        """Lean's reference semantics (`occurs`) against RDKit's substructure search"""
        ctx = self.ctx
        ops, meta = [], []
        for smi, mol in mols:
            atoms = pick_atoms(ctx.rng, mol)
            if not atoms or mol.GetNumAtoms() > 9:  # the Lean reference search is exhaustive and unpruned
                continue
            g = gen_fg.mol_graph(mol)
            ops.append({"op": "patternAll", "g": g, "patterns": [pg for _, pg, _ in self.structs], "atoms": atoms, "occurs": True})
            meta.append((smi, mol, atoms))
        for (smi, mol, atoms), r in zip(meta, ctx.driver(ops)):
            covers = [rdkit_cover(mol, pm) for pm, _, _ in self.structs]
            for ai, a in enumerate(atoms):
                for si, (pm, pg, lab) in enumerate(self.structs):
                    ctx.case(None, nontrivial=False)
                    if r["res"][ai][si][2] != (a in covers[si]):
                        ctx.corr_break("FGMatch/occurs-vs-RDKit", {"smiles": smi, "atom": a, "pattern": lab}, r["res"][ai][si][2], a in covers[si])


def exhaustive_small(ctx, run, max_atoms=5):
    """thorough tier: every atom order x (bond order as is / reversed) of the small constructed molecules, real code"""
    from rdkit import Chem

    for smi in SPECIALS:
        mol = Chem.MolFromSmiles(smi)
        if mol is None or not (1 <= mol.GetNumAtoms() <= max_atoms):
            continue
        atoms = list(range(mol.GetNumAtoms()))
        g = gen_fg.mol_graph(mol)
        fgrow, pmrow = run.real_rows(mol, atoms)
        for order in itertools.permutations(atoms):
            for bonds in (list(mol.GetBonds()), list(mol.GetBonds())[::-1]):
                mol2, perm = rebuilt_copy(mol, list(order), bonds)
                fgrow2, pmrow2 = run.real_rows(mol2, [perm[a] for a in atoms])
                run.statement(smi, mol, g, atoms, fgrow, pmrow, mol2, perm, fgrow2, pmrow2)
                ctx.count("exhaustive-small/copies")
    ctx.exhaustive = True


def corr_table(ctx):
    """round trip of the translator: what the driver holds == what the module builds now"""
    t = ctx.driver([{"op": "fgConfig"}])[0]
    exp = gen_fg.export_config()
    want = [[name, {"pattern": c["pattern"], "groups": c["groups"], "anti": c["anti"], "max": c["max"]}] for name, c in exp]
    ctx.case(("table", len(want)))
    if t["config"] != want:
        ctx.corr_break("FGMatch/table-round-trip", "functional_group_config", t["config"][:2], want[:2])
    ga = [[name, c["group_atoms"]] for name, c in exp]
    if t["groupAtoms"] != ga:
        ctx.corr_break("FGMatch/table-round-trip", "group_atoms", t["groupAtoms"], ga)
    from rdkit import Chem

    wm = [[s, gen_fg.mol_graph(Chem.MolFromSmiles(s))] for s in gen_fg.WITNESS_MOLS]
    if t["witnessMols"] != wm:
        ctx.corr_break("FGMatch/table-round-trip", "witness molecules", t["witnessMols"], wm)
    ctx.extra["fg_table"] = {"groups": len(exp), "structures": sum(len(c["pattern"]) + len(c["anti"]) for _, c in exp)}


def corr_mapping_perms(ctx, fg, n):
    rng = ctx.rng
    cases = []
    for _ in range(n):
        k = rng.randint(0, 5)
        m = rng.randint(0, 4)
        alpha = rng.choice(["CO", "CNO", "C"])
        cases.append(([rng.choice(alpha) for _ in range(m)], [rng.choice(alpha) for _ in range(k)]))
    ans = ctx.driver([{"op": "mappingPerms", "match": ms, "syms": ss} for ms, ss in cases])
    for (ms, ss), r in zip(cases, ans):
        real = [[list(p) for p in mp] for mp in fg.get_mapping_permutations(ms, ss)]
        ctx.case(("perms", tuple(ms), tuple(ss)), nontrivial=bool(real))
        if r["mappings"] != real:
            ctx.corr_break("FGMatch/get_mapping_permutations", {"match": ms, "syms": ss}, r["mappings"], real)
        ip = [list(p) for p in itertools.permutations(range(len(ss)))]
        if r["perms"] != ip:
            ctx.corr_break("FGMatch/itertools.permutations", len(ss), r["perms"][:3], ip[:3])


def witness_replay(ctx, run):
    """the two witnesses of Properties/C16.lean on the real code"""
    from rdkit import Chem

    fg = run.fg
    for smi, a, name in (("C1OCO1", 1, "acetal"), ("Oc1ncccc1O", 2, "phenol")):
        mol = Chem.MolFromSmiles(smi)
        ans = real_fg(fg, mol, name, a)
        real_occ = any(a in rdkit_cover(mol, pm) for pm in fg.functional_group_config[name].pattern) if name in fg.functional_group_config else None
        ctx.extra.setdefault("witness_replay", []).append(
            {"smiles": smi, "atom": a, "group": name, "is_functional_group": ans, "rdkit_occurrence": real_occ}
        )
        ctx.sample({"witness": smi, "atom": a, "group": name, "is_functional_group": ans, "rdkit_occurrence": real_occ})


def search(ctx):
    """deeper hunt on the real code after a proof obligation / the correspondence broke: more molecules, several
    renumberings each, every carbon atom"""
    try:
        fg = load_fg()
    except Exception as e:  # noqa: BLE001
        ctx.violation("fg-table-cannot-be-built", SRC_NOTE, "%s: %s" % (type(e).__name__, e), gen_fg.SRC)
        return
    run = Run(ctx, fg)
    mols = molecules(ctx, 500, 60)
    for smi, mol in mols:
        atoms = list(range(mol.GetNumAtoms()))[:25]
        g = gen_fg.mol_graph(mol)
        fgrow, pmrow = run.real_rows(mol, atoms)
        for kind in (renumber, shuffled_copy):
            mol2, perm = kind(ctx.rng, mol)
            fgrow2, pmrow2 = run.real_rows(mol2, [perm[a] for a in atoms])
            run.statement(smi, mol, g, atoms, fgrow, pmrow, mol2, perm, fgrow2, pmrow2)
        if sum(v for k, v in run.reported.items() if k != M_SOUND) >= 3:
            break


SRC_NOTE = "import of synrbl/SynUtils/functional_group_utils.py"


def run(ctx):
    quick = ctx.tier == "quick"
    ctx.rule = (
        "molecules: %d constructed ones (both Lean witnesses, small rings, fused/macrocyclic aromatics, hypervalent centres, "
        "every group of the table) + a seeded sample of the corpus molecules (atom maps removed, <= %d atoms); atoms: every "
        "non-carbon atom + one random carbon; for each (molecule, atom): all groups of the table through is_functional_group "
        "and all distinct pattern/group/anti-pattern graphs through pattern_match, on the molecule and on one random "
        "copy (alternately Chem.RenumberAtoms, which keeps the relative neighbour order, and a rebuilt copy with atoms and "
        "bonds shuffled, which does not); non-trivial = positive answer, distinct by (molecule, atom, group/structure); "
        "thorough: 5000 corpus molecules (<= 120 atoms) and, for the constructed molecules with <= 5 atoms, every atom order "
        "x bond order as is / reversed"
        % (len(SPECIALS), 70 if quick else 120)
    )
    ctx.assumptions = [
        "RDKit: SMILES parsing/sanitisation of molecules and patterns, GetNeighbors()/GetBondBetweenAtoms()/GetBondType(), "
        "RenumberAtoms (its output is checked against the hypothesis `Renum` on every instance), GetSubstructMatches as the "
        "reference for 'real occurrence' (cross-checked against a plain (symbol, bond type) backtracking search)",
        "the match list returned by pattern_match is compared as a set (the Python builds it from a set)",
        "graphs are finite and exported faithfully by harness/gen_fg.py:mol_graph (well-formedness checked by the driver)",
    ]
    ctx.trusted.append("harness/gen_fg.py (exports functional_group_config and molecule graphs)")
    ok_tables = ctx.gen_tables()
    built = ctx.build([MODULE])
    drv = ctx.build_driver()
    if built:
        ctx.audit(MODULE)
    if not (ok_tables and drv):
        return ctx.finish(search)
    try:
        fg = load_fg()
    except Exception as e:  # noqa: BLE001
        ctx.obligation("import functional_group_utils", "translator", False, "%s: %s" % (type(e).__name__, e))
        return ctx.finish(search)
    run_ = Run(ctx, fg)
    corr_table(ctx)
    corr_mapping_perms(ctx, fg, 300 if quick else 3000)
    witness_replay(ctx, run_)
    mols = molecules(ctx, 330 if quick else 5000, 70 if quick else 120)
    nspecial = sum(1 for s, _ in mols[: len(SPECIALS)] if s in SPECIALS)
    step = 60
    for i in range(0, len(mols), step):
        run_.one_batch(mols[i : i + step], with_pm=True, brute=(i < nspecial))
    run_.occurs_vs_rdkit(mols[: 40 if quick else 400])
    if not quick:
        exhaustive_small(ctx, run_)
    ctx.extra["structures_checked"] = len(run_.structs)
    ctx.extra["violations_by_mechanism"] = dict(run_.reported)
    ctx.sample({"molecule": mols[-1][0], "groups": len(run_.names), "structures": len(run_.structs)})
    return ctx.finish(search)
