"""C19 — the rule database stays consistent under any sequence of edits.

Correspondence: the real `RuleImputeManager` (add_entry / add_entries / remove_entry) driven through operation sequences
vs the Lean state machine `RDB.step` (driver ops `ruledb`, `ruledb_enum`, `ruledb_shipped`), RDKit answers recorded once per
SMILES and passed along as the oracle.

Independent statement (no model involved), evaluated on the REAL manager's database after every operation:
  * every record is {formula, smiles, Composition}; Composition has the explicit key Q and equals the RDKit composition
    of the SMILES counted by atomic number (harness/chem.py: true_comp), Q = net formal charge;
  * no two records share a formula or a SMILES unless both are records the start database shipped with;
  * an add is rejected (ValueError) iff the formula is present, or the SMILES is present, or RDKit does not parse the
    SMILES; a rejected add leaves the database untouched; an accepted add appends exactly one record;
  * add_entries returns exactly the rejected items, in order;
  * remove_entry removes exactly one record with that formula and nothing else, or nothing if there is none.
"""
import contextlib
import copy
import io
import itertools
import json
import os
import time

import chem
import layers
from core import quiet

quiet()
MODULE = "SynRBLModel.Properties.C19"
CALL_SITE = "synrbl/SynRuleImputer/rule_data_manager.py"
DB_FILES = {
    "rulesManager": "synrbl/SynRuleImputer/rules_manager.json.gz",
    "automatedRules": "Data/Rules/automated_rules.json.gz",
}

# the 8-compound alphabet of the exhaustive enumeration: (formula, smiles)
ALPHABET = [
    ("H2O", "O"),  # valid
    ("C2H6O", "CCO"),  # valid
    ("ethanol", "OCC"),  # the same molecule as CCO in another spelling, other formula
    ("H2O", "[OH2]"),  # duplicate formula, different SMILES
    ("water", "O"),  # duplicate SMILES, different formula
    ("NH4+", "[NH4+]"),  # charged
    ("SO4-2", "[O-]S(=O)(=O)[O-]"),  # charged, -2
    ("bad", "C(C"),  # invalid SMILES
]
ENUM_REMOVES = ["H2O", "C2H6O", "water", "NH4+", "nope", "h2o"]  # the last: no label, but one up to letter case
ENUM_BULKS = [
    [],
    list(range(8)),
    [0, 4, 7],
    [2, 1, 3, 5],
    [6, 6],
]
# extra compounds of the random histories: clashes with shipped records, mixtures, isotopes, aromatic, heavy element,
# the empty SMILES (RDKit parses it: an empty molecule), strings RDKit rejects for different reasons
EXTRA = [
    ("Cl2", "ClCl"), ("chlorine", "ClCl"), ("Cl2", "Cl[Cl]"), ("H3N", "N"), ("NH3", "N"), ("ammonia", "[NH3]"),
    ("H2O2", "OO"), ("HCl", "Cl"), ("NaCl", "[Na+].[Cl-]"), ("D2O", "[2H]O[2H]"), ("C6H6", "c1ccccc1"),
    ("C6H6", "C1=CC=CC=C1"), ("U", "[U]"), ("Og", "[Og]"), ("N3-", "[N-]=[N+]=[N-]"), ("azide", "[N-]=[N+]=[N-]"),
    ("empty", ""), ("H+", "[H+]"), ("H2", "[H][H]"), ("Fe+3", "[Fe+3]"), ("zwitterion", "C[N+](C)(C)CC([O-])=O"),
    # labels that differ only in letter case or surrounding blanks are different labels
    ("CO", "[C-]#[O+]"), ("Co", "[Co]"), ("HF", "F"), ("Hf", "[Hf]"), ("NO", "[N]=O"), ("No", "[No]"), ("SI", "S=[IH]"), ("Si", "[Si]"),
    ("bad2", "c1ccccc"), ("bad3", "xyz"), ("bad4", "C(=O)(=O)(=O)C"), ("bad5", "[NH5]"), ("", "CC"), ("H2O", "xx"),
]
OUTSIDE_DOMAIN = [("R-CH3", "*C")]  # dummy atom: RDKit parses it, the decomposer counts it under the key Q (see NOTES)


# ------------------------------------------------------------------------------------------------ RDKit as oracle / truth
_ORACLE = {}
_TRUTH = {}


def oracle_answer(smiles):
    """what the model may ask about a SMILES, recorded from RDKit directly (not through the manager's helpers)"""
    if smiles not in _ORACLE:
        from rdkit import Chem

        m = Chem.MolFromSmiles(smiles)
        at = chem.atoms_of(smiles)
        _ORACLE[smiles] = {
            "valid": m is not None,
            "atoms": at or [],
            "canon": Chem.MolToSmiles(m, isomericSmiles=True) if m is not None else None,
        }
    return _ORACLE[smiles]


def oracle_for(smiles_iter):
    return {s: oracle_answer(s) for s in smiles_iter}


def truth(smiles):
    """named true composition {symbol: n, 'Q': charge (always present)}; None if unparsable; 'dummy' if Z=0 occurs"""
    if smiles not in _TRUTH:
        tc = chem.true_comp(smiles)
        if tc is None:
            _TRUTH[smiles] = None
        elif 0 in tc:
            _TRUTH[smiles] = "dummy"
        else:
            d = {chem.element_symbol(z): n for z, n in tc.items() if z != "Q"}
            d["Q"] = tc.get("Q", 0)
            _TRUTH[smiles] = d
    return _TRUTH[smiles]


# ------------------------------------------------------------------------------------------------ the real manager
def norm_db(db):
    return [
        {"formula": e.get("formula"), "smiles": e.get("smiles"), "comp": [[k, v] for k, v in e.get("Composition", {}).items()]}
        for e in db
    ]


def snapshot(db):
    return json.dumps([[sorted(e.keys()), e.get("formula"), e.get("smiles"), list(e.get("Composition", {}).items())] for e in db])


def real_apply(manager, op):
    """one operation on the real manager; returns what the caller observes"""
    buf = io.StringIO()
    out = {"kind": op["op"], "raised": None, "message": None, "ret": None}
    with contextlib.redirect_stdout(buf):
        try:
            if op["op"] == "add":
                out["ret"] = manager.add_entry(op["formula"], op["smiles"])
            elif op["op"] == "add_entries":
                ret = manager.add_entries([{"formula": f, "smiles": s} for f, s in op["entries"]])
                out["ret"] = [[e["formula"], e["smiles"]] for e in ret]
            else:
                out["ret"] = manager.remove_entry(op["formula"])
        except Exception as e:  # anything but ValueError is reported as such
            out["raised"] = type(e).__name__
            out["message"] = str(e)
    out["printed"] = buf.getvalue().splitlines()
    return out


def new_manager(db):
    from synrbl.SynRuleImputer.rule_data_manager import RuleImputeManager

    return RuleImputeManager(db)


def outcomes_agree(model, real):
    """model outcome JSON (driver) vs what the real call did"""
    k = model.get("kind")
    if k == "add":
        if model["result"] == "added":
            return real["raised"] is None and real["ret"] is None and real["printed"] == [model["message"]]
        return real["raised"] == "ValueError" and real["message"] == model["message"] and real["printed"] == []
    if k == "bulk":
        return real["raised"] is None and real["ret"] == model["rejected"] and real["printed"] == model["printed"]
    if k == "remove":
        return real["raised"] is None and real["ret"] is None and real["printed"] == [model["message"]]
    return False


# ------------------------------------------------------------------------------------------------ independent statement
def stmt_records(ctx, db, shipped_ids, witness, seen):
    """composition truth + explicit Q + no duplicates (other than among records the start database shipped with)"""
    ok = True
    for e in db:
        key = (e.get("smiles"), json.dumps(e.get("Composition"), sort_keys=True), tuple(sorted(e.keys())))
        if key in seen:
            continue
        seen.add(key)
        comp = e.get("Composition")
        t = truth(e.get("smiles")) if isinstance(e.get("smiles"), str) else None
        if t == "dummy":
            ctx.count("record:outside-domain(dummy atom)")
            continue
        bad = None
        if sorted(e.keys()) != ["Composition", "formula", "smiles"]:
            bad = "record keys %s" % sorted(e.keys())
        elif t is None:
            bad = "record with a SMILES RDKit does not parse"
        elif not isinstance(comp, dict) or "Q" not in comp:
            bad = "no explicit Q key"
        elif any(not isinstance(v, int) or isinstance(v, bool) for v in comp.values()):
            bad = "non-integer count"
        elif comp["Q"] != t["Q"] or {k: v for k, v in comp.items() if v != 0 or k == "Q"} != {
            k: v for k, v in t.items() if v != 0 or k == "Q"
        }:
            bad = "recorded composition differs from the RDKit composition"
        if bad:
            ok = False
            ctx.violation(
                "recorded-composition-not-true",
                witness,
                "%s: record=%s true=%s" % (bad, json.dumps(e), t),
                CALL_SITE + ":add_entry",
            )
    for field in ("formula", "smiles"):
        groups = {}
        for e in db:
            groups.setdefault(e.get(field), []).append(e)
        for val, members in groups.items():
            if len(members) > 1 and not all(id(m) in shipped_ids for m in members):
                ok = False
                ctx.violation(
                    "duplicate-entry-accepted",
                    witness,
                    "two records share the %s %r: %s" % (field, val, json.dumps(members)),
                    CALL_SITE + ":add_entry",
                )
    return ok


def should_reject(db, formula, smiles):
    if any(e["formula"] == formula for e in db):
        return "formula"
    if any(e["smiles"] == smiles for e in db):
        return "smiles"
    if chem.atoms_of(smiles) is None:
        return "invalid"
    return None


def stmt_step(ctx, before, op, real, after, witness):
    """the operation did what the property says, judged from the database before/after alone.
    `before` is a deep copy taken before the call, `after` the live database."""
    viol = None
    nb = norm_db(before)
    na = norm_db(after)
    if op["op"] == "add":
        why = should_reject(before, op["formula"], op["smiles"])
        if why is not None:
            if real["raised"] != "ValueError":
                viol = ("bad-entry-not-rejected", "expected rejection (%s), got %s" % (why, real))
            elif na != nb:
                viol = ("rejected-add-changed-database", "database changed although the add was rejected")
            elif not real["message"]:
                viol = ("rejection-not-reported", "empty error message")
        else:
            if real["raised"] is not None:
                viol = ("good-entry-rejected", "a valid, new entry was rejected: %s" % real)
            else:
                # exactly one record more, carrying the given formula and SMILES; the others untouched and in their
                # order (where the new record sits is not part of the property)
                pos = [i for i, e in enumerate(na) if (e["formula"], e["smiles"]) == (op["formula"], op["smiles"])]
                if len(na) != len(nb) + 1 or not any(na[:i] + na[i + 1 :] == nb for i in pos):
                    viol = ("add-disturbed-other-entries", "after=%s" % na[-3:])
    elif op["op"] == "add_entries":
        cur = [dict(e) for e in before]
        rejected = []
        for f, s in op["entries"]:
            if should_reject(cur, f, s) is not None:
                rejected.append([f, s])
            else:
                cur.append({"formula": f, "smiles": s})
        accepted = sorted([e["formula"], e["smiles"]] for e in cur[len(before) :])
        # remove one record per accepted item from the database after; what is left must be the database before
        rest = list(na)
        missing = []
        for f, s in accepted:
            i = next((i for i in range(len(rest) - 1, -1, -1) if (rest[i]["formula"], rest[i]["smiles"]) == (f, s)), None)
            if i is None:
                missing.append([f, s])
            else:
                del rest[i]
        if real["raised"] is not None:
            viol = ("bulk-add-raised", str(real))
        elif real["ret"] != rejected:
            viol = ("bulk-add-misreports-rejections", "returned %s expected %s" % (real["ret"], rejected))
        elif missing or rest != nb:
            viol = ("bulk-add-wrong-database", "accepted=%s missing=%s, %d other records before, %d after" % (accepted, missing, len(nb), len(rest)))
    else:
        # exactly one record carrying that formula goes (with a unique formula: *the* record), or nothing if there is none
        idx = [i for i, e in enumerate(before) if e["formula"] == op["formula"]]
        wants = [nb[:i] + nb[i + 1 :] for i in idx] or [nb]
        if real["raised"] is not None:
            viol = ("remove-raised", str(real))
        elif na not in wants:
            viol = ("remove-not-exactly-the-named-entry", "%d records before, %d after, %d carried the formula" % (len(nb), len(na), len(idx)))
        elif not real["printed"]:
            viol = ("removal-not-reported", "nothing printed")
    if viol:
        ctx.violation(viol[0], witness, viol[1], CALL_SITE + ":" + {"add": "add_entry", "add_entries": "add_entries"}.get(op["op"], "remove_entry"))
        return False
    return True


def stmt_shipped(ctx):
    """data-level statement on the shipped files: composition truth, explicit Q, duplicates (a listed data finding)"""
    for name, rel in DB_FILES.items():
        db = layers.load_db(name)
        stmt_records(ctx, db, {id(e) for e in db}, {"db": name}, set())
        seen_w = set()
        for i, j in itertools.combinations(range(len(db)), 2):
            if db[i]["formula"] == db[j]["formula"] or db[i]["smiles"] == db[j]["smiles"]:
                w = db[j]["smiles"]
                ctx.count("shipped-duplicate:%s" % name)
                if w not in seen_w:
                    seen_w.add(w)
                    ctx.violation(
                        "shipped-database-duplicate-entry",
                        w,
                        "%s: records %d and %d: %s / %s" % (name, i, j, json.dumps(db[i]), json.dumps(db[j])),
                        rel,
                    )
        ctx.case(("shipped", name))


# ------------------------------------------------------------------------------------------------ operations
def op_add(c):
    return {"op": "add", "formula": c[0], "smiles": c[1]}


def op_bulk(cs):
    return {"op": "add_entries", "entries": [[f, s] for f, s in cs]}


def op_remove(f):
    return {"op": "remove", "formula": f}


def enum_ops():
    ops = [op_add(c) for c in ALPHABET]
    ops += [op_remove(f) for f in ENUM_REMOVES]
    ops += [op_bulk([ALPHABET[i] for i in idx]) for idx in ENUM_BULKS]
    return ops


def op_smiles(op):
    if op["op"] == "add":
        return [op["smiles"]]
    if op["op"] == "add_entries":
        return [s for _, s in op["entries"]]
    return []


def model_start(db):
    return [{"formula": e["formula"], "smiles": e["smiles"], "comp": layers.dict_pairs(e["Composition"])} for e in db]


def classify(model_outcome):
    k = model_outcome.get("kind")
    if k == "add":
        return "add:" + model_outcome["result"]
    if k == "bulk":
        rs = model_outcome["results"]
        return "bulk:%d-items:%d-rejected" % (len(rs), sum(1 for r in rs if r != "added"))
    if k == "remove":
        return "remove:" + ("found" if model_outcome["found"] else "absent")
    return str(k)


# ------------------------------------------------------------------------------------------------ exhaustive enumeration
def real_dfs(ctx, ops, depth, db, path, seen, stmt=True):
    """pre-order traversal of all histories of length <= depth with the REAL manager (fresh manager per node over a deep
    copy of the parent's database); yields (path, outcome, database)"""
    if depth == 0:
        return
    for i, op in enumerate(ops):
        before = copy.deepcopy(db)
        m = new_manager(copy.deepcopy(db))
        real = real_apply(m, op)
        after = m.database
        p = path + (i,)
        if stmt:
            stmt_step(ctx, before, op, real, after, {"start": "empty", "ops": [ops[k] for k in p]})
            stmt_records(ctx, after, set(), {"start": "empty", "ops": [ops[k] for k in p]}, seen)
        yield p, real, after
        yield from real_dfs(ctx, ops, depth - 1, after, p, seen, stmt)


def corr_enum(ctx, depth):
    ops = enum_ops()
    oracle = oracle_for(s for op in ops for s in op_smiles(op))
    seen = set()
    t0 = time.time()
    bad = 0
    n = 0

    def compare(model_nodes, real_nodes):
        nonlocal bad, n
        real_nodes = list(real_nodes)
        if len(model_nodes) != len(real_nodes):
            ctx.corr_break("RuleDB2.enum", {"depth": depth}, len(model_nodes), len(real_nodes))
            return
        for mn, (p, real, after) in zip(model_nodes, real_nodes):
            n += 1
            cls = classify(mn["o"])
            ctx.count("enum:" + cls)
            ctx.count("enum:length=%d" % len(p))
            ctx.case(("enum", p), nontrivial=cls not in ("remove:absent", "bulk:0-items:0-rejected"))
            if not outcomes_agree(mn["o"], real) or mn["s"] != norm_db(after):
                bad += 1
                if bad <= 3:
                    ctx.corr_break(
                        "RuleDB2.step", {"start": "empty", "ops": [ops[k] for k in p]},
                        {"outcome": mn["o"], "state": mn["s"]}, {"outcome": real, "state": norm_db(after)},
                    )

    if depth <= 3:
        model = ctx.driver([{"op": "ruledb_enum", "start": [], "oracle": oracle, "alphabet": ops, "depth": depth}])[0]
        if "error" in model:
            ctx.corr_break("RuleDB2.enum", {"depth": depth}, model, None)
            return
        compare(model["nodes"], real_dfs(ctx, ops, depth, [], (), seen))
    else:  # one subtree per first operation, so that no single answer gets huge
        first = ctx.driver([{"op": "ruledb_enum", "start": [], "oracle": oracle, "alphabet": ops, "depth": 1}])[0]["nodes"]
        for i, op in enumerate(ops):
            m = new_manager([])
            real = real_apply(m, op)
            after = m.database
            stmt_step(ctx, [], op, real, after, {"start": "empty", "ops": [op]})
            stmt_records(ctx, after, set(), {"start": "empty", "ops": [op]}, seen)
            compare([first[i]], [((i,), real, after)])
            sub = ctx.driver(
                [{"op": "ruledb_enum", "start": first[i]["s"], "oracle": oracle, "alphabet": ops, "depth": depth - 1}]
            )[0]
            compare(sub["nodes"], real_dfs(ctx, ops, depth - 1, after, (i,), seen))
    ctx.traces += n
    ctx.extra["enumeration"] = {
        "alphabet_compounds": ALPHABET, "operations": len(ops), "max_length": depth, "histories": n,
        "seconds": round(time.time() - t0, 1),
    }
    ctx.exhaustive = True
    return n


# ------------------------------------------------------------------------------------------------ random histories
def gen_history(ctx, start_db, max_len):
    rng = ctx.rng
    pool = ALPHABET + EXTRA + OUTSIDE_DOMAIN
    shipped = [(e["formula"], e["smiles"]) for e in start_db]
    formulas = sorted({c[0] for c in pool} | {f for f, _ in shipped}) + ["nope"]
    n = rng.randint(1, max_len)
    ops = []
    added = []
    for _ in range(n):
        r = rng.random()

        def pick():
            q = rng.random()
            if shipped and q < 0.2:
                f, s = rng.choice(shipped)  # clashes with a shipped record
                if rng.random() < 0.5:
                    f = f + "'"
                elif rng.random() < 0.5:
                    s = "[" + s + "]" if s.isalpha() and len(s) == 1 else s
                return (f, s)
            if q < 0.3:
                return (rng.choice(pool)[0], rng.choice(pool)[1])  # any formula with any SMILES
            return rng.choice(pool)

        if r < 0.5:
            c = pick()
            added.append(c[0])
            ops.append(op_add(c))
        elif r < 0.7:
            cs = [pick() for _ in range(rng.randint(0, 6))]
            added += [c[0] for c in cs]
            ops.append(op_bulk(cs))
        else:
            if added and rng.random() < 0.6:
                f = rng.choice(added)
            else:
                f = rng.choice(formulas)
            if rng.random() < 0.3:  # a name that is a label only up to letter case / blanks
                f = rng.choice([f.lower(), f.upper(), f.swapcase(), " " + f, f + " ", f.capitalize()])
            ops.append(op_remove(f))
    return ops


def corr_histories(ctx, start_name, n_hist, max_len):
    """one persistent real manager per history (as the code is used), compared with the model after every operation"""
    start_db = [] if start_name == "empty" else layers.load_db(start_name)
    histories = [gen_history(ctx, start_db, max_len) for _ in range(n_hist)]
    oracle = oracle_for({s for h in histories for op in h for s in op_smiles(op)})
    ans = ctx.driver([{"op": "ruledb", "start": model_start(start_db), "oracle": oracle, "seqs": histories}])[0]
    if "error" in ans:
        ctx.corr_break("RuleDB2.run(" + start_name + ")", {"histories": len(histories)}, ans, None)
        return
    bad = 0
    for h, res in zip(histories, ans["results"]):
        db = copy.deepcopy(start_db)
        shipped_ids = {id(e) for e in db}
        m = new_manager(db)
        seen = set()
        # records the start database shipped with are judged by stmt_shipped, not once per history
        for e in db:
            seen.add((e.get("smiles"), json.dumps(e.get("Composition"), sort_keys=True), tuple(sorted(e.keys()))))
        ok = res.get("run_agrees") is True
        first_diff = None
        for i, (op, st) in enumerate(zip(h, res["steps"])):
            before = copy.deepcopy(m.database)
            real = real_apply(m, op)
            w = {"start": start_name, "ops": h[: i + 1]}
            stmt_step(ctx, before, op, real, m.database, w)
            stmt_records(ctx, m.database, shipped_ids, w, seen)
            cls = classify(st["outcome"])
            ctx.count("history(%s):%s" % (start_name, cls.split("-items")[0]))
            keys = [[e.get("formula"), e.get("smiles")] for e in m.database]
            if ok and (not outcomes_agree(st["outcome"], real) or keys != st["keys"]):
                ok = False
                first_diff = (i, st, real, keys)
        final_same = res["final"] == norm_db(m.database)
        ctx.case(("history", start_name, json.dumps(h)), nontrivial=len(h) > 1)
        ctx.count("history(%s):length=%s" % (start_name, "1-5" if len(h) <= 5 else "6-15" if len(h) <= 15 else "16-30"))
        if not ok or not final_same:
            bad += 1
            if bad <= 3:
                if first_diff:
                    i, st, real, keys = first_diff
                    ctx.corr_break(
                        "RuleDB2.run(" + start_name + ")", {"start": start_name, "ops": h[: i + 1]},
                        st, {"outcome": real, "keys": keys},
                    )
                else:
                    ctx.corr_break(
                        "RuleDB2.run(" + start_name + ")", {"start": start_name, "ops": h},
                        res["final"][-3:], norm_db(m.database)[-3:],
                    )
    ctx.traces += len(histories)
    if histories:
        ctx.sample({"start": start_name, "history": histories[0][:4], "model_steps": [s["outcome"] for s in ans["results"][0]["steps"][:4]]})


def corr_shipped_tables(ctx):
    """the generated tables, read as manager states by the model, are what Python loads; the model's duplicate report
    is the one computed here"""
    t = ctx.driver([{"op": "ruledb_shipped"}])[0]
    for name in DB_FILES:
        db = layers.load_db(name)
        want_state = model_start(db)
        for e, w in zip(t[name]["state"], want_state):
            w["comp"] = [[k, int(v)] for k, v in w["comp"]]
        ctx.case(("table-as-state", name))
        if t[name]["state"] != want_state:
            ctx.corr_break("gen_tables→RDB.entryOf:" + name, name, t[name]["state"][:2], want_state[:2])

        def dups(xs):
            out = []
            for x in xs:
                if xs.count(x) > 1 and x not in out:
                    out.append(x)
            return out

        py = {
            "dupFormulas": dups([e["formula"] for e in db]),
            "dupSmiles": dups([e["smiles"] for e in db]),
        }
        kept = []
        for e in db:
            if not any(k["formula"] == e["formula"] or k["smiles"] == e["smiles"] for k in kept):
                kept.append(e)
        py["dedupKeys"] = [[e["formula"], e["smiles"]] for e in kept]
        py["invData"] = (
            not py["dupFormulas"] and not py["dupSmiles"]
            and all(truth(e["smiles"]) not in (None, "dummy") and "Q" in e["Composition"]
                    and {k: v for k, v in e["Composition"].items() if v or k == "Q"} == truth(e["smiles"]) for e in db)
        )
        got = {k: t[name][k] for k in py}
        ctx.count("shipped:%s:duplicate-formulas=%d,duplicate-smiles=%d" % (name, len(py["dupFormulas"]), len(py["dupSmiles"])))
        if got != py:
            ctx.corr_break("RDB.dups/dedupRecords/invData:" + name, name, got, py)
        # replay of the file through the REAL manager == the de-duplicated table
        m = new_manager([])
        real = real_apply(m, op_bulk([(e["formula"], e["smiles"]) for e in db]))
        ctx.case(("replay-file", name))
        if [[e["formula"], e["smiles"]] for e in m.database] != t[name]["dedupKeys"]:
            ctx.corr_break("replay(" + name + ")", name, t[name]["dedupKeys"][-3:], [[e["formula"], e["smiles"]] for e in m.database][-3:])
        ctx.sample({"replay_of": name, "rejected_by_real_manager": real["ret"]})


def constructor_forms(ctx):
    """None / [] / list / DataFrame all give the list of records the model starts from"""
    import pandas as pd

    db = layers.load_db("automatedRules")
    forms = {
        "None": (new_manager(None).database, []),
        "[]": (new_manager([]).database, []),
        "list": (new_manager(copy.deepcopy(db)).database, db),
        "DataFrame": (new_manager(pd.DataFrame(copy.deepcopy(db))).database, db),
    }
    for k, (got, want) in forms.items():
        ctx.case(("constructor", k))
        if norm_db(got) != norm_db(want):
            ctx.corr_break("RuleImputeManager.__init__", k, norm_db(want)[:2], norm_db(got)[:2])


def oracle_laws(ctx):
    """the manager's RDKit helpers against RDKit itself, on every recorded SMILES"""
    from synrbl.SynRuleImputer.rule_data_manager import RuleImputeManager

    for s, a in sorted(_ORACLE.items()):
        ctx.case(("oracle", s), nontrivial=a["valid"])
        v = RuleImputeManager.is_valid_smiles(s)
        c = RuleImputeManager.canonicalize_smiles(s)
        if v != a["valid"] or c != a["canon"]:
            ctx.corr_break("RuleImputeManager.is_valid_smiles/canonicalize_smiles", s, a, {"valid": v, "canon": c})
        if a["valid"] and a["canon"] is not None:
            cc = oracle_answer(a["canon"])
            if not cc["valid"] or cc["canon"] != a["canon"]:
                ctx.obligation("oracle-law canon idempotent", "oracle-law", False, "%r -> %r -> %r" % (s, a["canon"], cc["canon"]))


def same_molecule_observation(ctx):
    """not part of the property as stated (string-level uniqueness): the same molecule under two spellings is accepted.
    Recorded in the evidence so that a change of this behaviour is visible."""
    m = new_manager([])
    real_apply(m, op_add(("C2H6O", "CCO")))
    r = real_apply(m, op_add(("ethanol", "OCC")))
    ctx.extra["same_molecule_two_spellings_accepted"] = r["raised"] is None
    m = new_manager([])
    real_apply(m, op_add(("R-CH3", "*C")))
    ctx.extra["dummy_atom_record"] = norm_db(m.database)


def data_fix_safety(ctx, n):
    """informational, not part of the property: would deleting the later duplicate records from rules_manager.json.gz
    change what the matcher returns?  (They are exact copies — same SMILES, same composition — and the matcher removes
    solutions that are equal as (smiles, ratio) sets, so it should not.)"""
    db = layers.load_db("rulesManager")
    kept = []
    for e in db:
        if not any(k["formula"] == e["formula"] or k["smiles"] == e["smiles"] for k in kept):
            kept.append(e)
    dropped = [e for e in db if not any(e is k for k in kept)]
    if not dropped:
        ctx.extra["dedup_fix"] = {"duplicates": 0}
        return
    rng = ctx.rng
    elems = sorted({k for e in dropped for k in e["Composition"] if k != "Q"})
    same = diff = skipped = 0
    first = None
    for _ in range(n):
        d = {}
        for e, m in ((rng.choice(dropped), rng.randint(1, 2)), (rng.choice(db), rng.randint(0, 2))):
            for k, v in e["Composition"].items():
                d[k] = d.get(k, 0) + v * m
        if rng.random() < 0.3:
            d[rng.choice(elems)] = d.get(rng.choice(elems), 0) + 1
        try:
            a = layers.with_alarm(1.0, layers.real_match, db, dict(d))
            b = layers.with_alarm(1.0, layers.real_match, kept, dict(d))
        except (layers._Timeout, RecursionError):
            skipped += 1
            continue
        if a == b:
            same += 1
        else:
            diff += 1
            first = first or {"imbalance": d, "shipped": a[:2], "deduplicated": b[:2]}
    ctx.extra["dedup_fix"] = {
        "duplicates": len(dropped), "imbalances_compared": same + diff, "matcher_output_differs": diff,
        "over_budget": skipped, "first_difference": first,
    }


# ------------------------------------------------------------------------------------------------ search / run
def search(ctx):
    """a proof obligation or the correspondence broke: hunt for a history on which the REAL manager violates the
    statement (deeper enumeration, 10x the random budget)"""
    t0 = time.time()
    ops = enum_ops()
    seen = set()
    for p, real, after in real_dfs(ctx, ops, 3, [], (), seen):
        if any(v["mechanism"] != "shipped-database-duplicate-entry" for v in ctx.violations):
            return
    for start_name in ("empty", "rulesManager", "automatedRules"):
        start_db = [] if start_name == "empty" else layers.load_db(start_name)
        for _ in range(1500):
            if time.time() - t0 > 240:
                return
            h = gen_history(ctx, start_db, 30)
            db = copy.deepcopy(start_db)
            ids = {id(e) for e in db}
            m = new_manager(db)
            seen = set()
            for e in db:
                seen.add((e.get("smiles"), json.dumps(e.get("Composition"), sort_keys=True), tuple(sorted(e.keys()))))
            for i, op in enumerate(h):
                before = copy.deepcopy(m.database)
                real = real_apply(m, op)
                w = {"start": start_name, "ops": h[: i + 1]}
                if not (stmt_step(ctx, before, op, real, m.database, w) and stmt_records(ctx, m.database, ids, w, seen)):
                    return


def run(ctx):
    quick = ctx.tier == "quick"
    ctx.rule = (
        "exhaustive: every history of length <= %d over 18 operations — add_entry of each of 8 compounds (valid; second "
        "spelling of the same molecule; duplicate formula with another SMILES; duplicate SMILES with another formula; "
        "cation; dianion; unparsable), remove_entry of 4 present-able formulas and an absent one, add_entries of 5 lists "
        "(empty, all 8, clashes+invalid, reordered, the same item twice) — from the empty database, fresh manager per "
        "node; random: histories of 1..30 operations over 36 compounds (clashes with shipped records, mixtures, isotopes, "
        "empty SMILES, four kinds of unparsable strings, a dummy atom), from the empty database and from both shipped "
        "databases, one persistent manager per history (non-trivial = history longer than one operation / enumeration node "
        "other than a no-op removal or empty bulk; distinct by operation path)" % (3 if quick else 4)
    )
    ctx.assumptions = [
        "RDKit: MolFromSmiles validity, AddHs atom list (Z, symbol, formal charge) — recorded per SMILES and passed to the "
        "model as the oracle; truth of a composition = count by atomic number and net formal charge of that atom list",
        "oracle law Named (RDKit names atoms of valid SMILES by the periodic table) excludes the dummy atom '*' (Z = 0), "
        "which the decomposer files under the key Q — outside the domain, as in C07",
        "Python list/dict semantics (append, list.remove = first equal element, dict equality) as modelled in Model/RuleDB2.lean",
        "uniqueness is about formula and SMILES *strings*: the manager never canonicalises (witness theorem in Properties/C19.lean)",
    ]
    ctx.gen_tables()
    built = ctx.build([MODULE])
    drv = ctx.build_driver()
    if built:
        ctx.audit(MODULE)
    stmt_shipped(ctx)
    if drv:
        corr_shipped_tables(ctx)
        constructor_forms(ctx)
        corr_enum(ctx, 3 if quick else 4)
        for start_name, n in (("empty", 150), ("rulesManager", 150), ("automatedRules", 100)):
            corr_histories(ctx, start_name, n if quick else n * 15, 30)
        oracle_laws(ctx)
        same_molecule_observation(ctx)
        data_fix_safety(ctx, 60 if quick else 600)
    # shortest witnesses first (the traversal is pre-order, so a longer history can be met before a shorter one)
    ctx.violations.sort(key=lambda v: len(v["witness"].get("ops", [])) if isinstance(v["witness"], dict) else 0)
    return ctx.finish(search)
