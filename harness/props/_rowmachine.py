"""Common skeleton of the checks that are decided by the row-machine theorems + the pipeline correspondence."""
import chem
import pipeline
from core import quiet

quiet()

TRUSTED = [
    "RDKit/fgutils/xgboost kernel answers enter the model as the fields of `Oracle`; theorems quantify over every oracle",
    "pandas row bookkeeping, joblib order preservation and the id/index plumbing are covered by the stage-by-stage "
    "correspondence (11 snapshots per row + statistics) on every run, not by the theorems",
]


def prepare(ctx, module, rule, extra_assumptions=()):
    ctx.rule = rule
    ctx.assumptions = TRUSTED + list(extra_assumptions)
    ctx.gen_tables()
    built = ctx.build([module])
    drv = ctx.build_driver()
    if built:
        ctx.audit(module)
    return built, drv


def deep_search(ctx, stmt, n=700, threshold=0, batch_size=250):
    """failing-input search on the real code: a larger corpus sample + all specials through the real pipeline"""
    rng = ctx.rng
    rx = rng.sample(chem.corpus_reactions(), n) + list(pipeline.SPECIALS)
    tr = pipeline.traced_run(rx, n_jobs=14, batch_size=batch_size, threshold=threshold)
    if tr["out"] is not None:
        stmt(ctx, tr)
    return tr
