"""C06 — a reaction's result does not depend on its batch context."""
import json

import pipeline
from _rowmachine import prepare

MODULE = "SynRBLModel.Properties.C06"
HEAVY = 150  # rows given to the layouts that run in one process
KEYS = ("reaction", "solved", "solved_by", "issue", "rules", "confidence", "input_reaction")


def key_row(r):
    return json.dumps({k: r.get(k) for k in KEYS}, sort_keys=True)


def layouts(ctx, inputs, nlayouts):
    rng = ctx.rng
    out = [("one batch", list(range(len(inputs))), None, 12)]
    for _ in range(nlayouts):
        perm = list(range(len(inputs)))
        rng.shuffle(perm)
        bs = rng.choice([1, 2, 3, 5, 7, len(inputs) // 2 + 1, len(inputs) + 1])
        out.append(("perm bs=%s" % bs, perm, bs, rng.choice([1, 2, 4, 8, 16])))
    # one worker, one batch, in the given and in the reverse order: everything runs in this process, nothing is pickled afresh
    n = min(len(inputs), HEAVY)  # single-process layouts are slow: a prefix of the list in the thorough tier
    out.append(("one worker, one batch", list(range(n)), None, 1))
    out.append(("one worker, one batch, reversed", list(range(n))[::-1], None, 1))
    # the rejected row first and alone in its batch: a first batch that reports hardly any counter
    bad = [i for i, x in enumerate(inputs) if x == "xx>>C"]
    if bad:
        out.append(("rejected row first, bs=1", bad + [i for i in range(len(inputs)) if i not in bad], 1, 2))
    return out


def statement(ctx, inputs, results):
    """results: list of (name, perm, traced run); every row identical across layouts, stats identical"""
    base_name, base_perm, base = results[0]
    if base["out"] is None:
        ctx.violation("run-failed", {"layout": base_name}, str(base["error"]), "balancing.py")
        return
    ref = {}
    for pos, idx in enumerate(base_perm):
        ref[idx] = key_row(base["out"][pos])
    for name, perm, tr in results[1:]:
        if tr["out"] is None or len(tr["out"]) != len(perm):
            ctx.violation("run-failed-or-lost-rows", {"layout": name}, str(tr["error"]), "balancing.py")
            return
        for pos, idx in enumerate(perm):
            ctx.case(("c06", inputs[idx], name), nontrivial=True)
            if pipeline.hit_by_real_timeout(tr["out"][pos]) or "terminated by timeout" in ref[idx]:
                ctx.count("row-hit-by-real-timeout(not compared)")
                continue
            if key_row(tr["out"][pos]) != ref[idx]:
                ctx.violation("row-depends-on-batch-context", inputs[idx],
                              "layout '%s' n_jobs=%s: %s vs %s" % (name, tr["n_jobs"], key_row(tr["out"][pos]), ref[idx]),
                              "synrbl/balancing.py id/index plumbing")
                return
        if len(perm) == len(inputs) and tr["stats"] != base["stats"]:
            ctx.violation("statistics-depend-on-partition", {"layout": name}, "%s vs %s" % (tr["stats"], base["stats"]),
                          "synrbl/balancing.py:merge_stats")
            return


def pick(ctx, n):
    mix = pipeline.workload_mix(ctx)
    rng = ctx.rng
    idx = [i for i in range(len(mix["inputs"])) if pipeline.is_small(mix["inputs"][i], 40)]
    rng.shuffle(idx)
    picked = [mix["inputs"][i] for i in idx[:n]]
    # rows whose search finds nothing under every condition (they are dropped from the table of retained conditions), a
    # malformed row and a balanced one, spread over the list: results of the rows after them must not shift
    # (also: a two-fold oxidation ahead of single oxidations — reagent templates are shared data; whatever one row does with
    # them must not show in another)
    for extra in ["N>>CCO", "[Na+].[Cl-]>>CCO", "O>>CCC", "xx>>C", "CC>>CC", "CC(O)c1ccccc1>>CC(=O)c1ccccc1", "CCO>>CC=O", "OCCCCO>>O=CCCC=O",
                  # several-element imbalances: the rule search has many solutions to rank
                  "CS(=O)(=O)Cl.CCO>>CCOS(C)(=O)=O", "CC(=O)OC(C)=O.CN>>CNC(C)=O", "O=S(Cl)Cl.CC(=O)O>>CC(=O)Cl", "CCOC(=O)CBr.N>>CCOC(=O)CN",
                  "O=P(Cl)(Cl)Cl.CC(N)=O>>CC#N"]:
        picked.insert(rng.randint(0, max(0, len(picked) - 2)), extra)
    return picked


def explore(ctx, n, nlayouts, compare=True):
    inputs = pick(ctx, n)
    results = []
    for li, (name, perm, bs, nj) in enumerate(layouts(ctx, inputs, nlayouts)):
        rows = [inputs[i] for i in perm]
        if li % 2 == 1:
            # dictionary rows that carry their own `id` column (the original position): after a permutation or in a later
            # batch the caller's id differs from the row's position, which must not matter
            rows = [{"reaction": inputs[i], "id": i} for i in perm]
            ctx.count("layout:dict-rows-with-own-id")
        tr = pipeline.traced_run(rows, n_jobs=nj, batch_size=bs)
        tr["inputs"] = [inputs[i] for i in perm]
        if compare:
            pipeline.compare_trace(ctx, tr)
        ctx.count("layout:n_jobs=%s" % nj)
        results.append((name, perm, tr))
    # one by one
    singles = [pipeline.traced_run([x], n_jobs=1) for x in inputs[: max(4, n // 5)]]
    base = results[0][2]
    if base["out"] is not None:
        for i, s in enumerate(singles):
            ctx.case(("c06-single", inputs[i]), nontrivial=True)
            if s["out"] is not None and (pipeline.hit_by_real_timeout(s["out"][0]) or pipeline.hit_by_real_timeout(base["out"][i])):
                continue
            if s["out"] is None or key_row(s["out"][0]) != key_row(base["out"][i]):
                ctx.violation("row-depends-on-batch-context", inputs[i],
                              "alone: %s vs in batch: %s" % (s["out"], key_row(base["out"][i])), "synrbl/balancing.py id/index plumbing")
                break
    # one long-lived Balancer object called repeatedly: first over other reactions (the reversed list with every second
    # row dropped, as dictionary rows), then over the subset, then over the subset again — what the object saw before must
    # not matter
    from synrbl import Balancer

    obj = Balancer(n_jobs=4)
    sub = list(range(min(len(inputs), HEAVY)))
    warm = [{"reaction": inputs[i], "id": 1000 + i} for i in reversed(sub) if i % 2 == 0]
    first = pipeline.traced_run(warm, balancer=obj)
    if compare:
        pipeline.compare_trace(ctx, first)
    for rep in ("second call", "third call"):
        tr = pipeline.traced_run([inputs[i] for i in sub], balancer=obj)
        tr["n_jobs"] = 4
        if compare:
            pipeline.compare_trace(ctx, tr)
        ctx.count("layout:same-object-" + rep.replace(" ", "-"))
        results.append(("same object, " + rep, sub, tr))
    # a machine on which the clock runs fast (every clock reading 30 s after the previous one), for the rows that never reach
    # the MCS stage (no documented wall-clock timeout applies to them): their result must not depend on elapsed time
    import faults

    early = [i for i, r in enumerate(base["out"] or []) if r.get("solved_by") in ("input-balanced", "rule-based") or r.get("issue") == "Invalid reaction SMILES."]
    if early:
        with faults.SkewedClock(30.0) as clock:
            tr = pipeline.traced_run([inputs[i] for i in early], n_jobs=1)
        ctx.count("layout:fast-clock")
        ctx.count("fast-clock-readings", clock.reads)
        if tr["out"] is None or len(tr["out"]) != len(early):
            ctx.violation("run-failed-or-lost-rows", {"layout": "fast clock"}, str(tr["error"]), "balancing.py")
        else:
            for pos, i in enumerate(early):
                ctx.case(("c06", inputs[i], "fast clock"), nontrivial=True)
                if key_row(tr["out"][pos]) != key_row(base["out"][i]):
                    ctx.violation("row-depends-on-elapsed-time", inputs[i],
                                  "clock running fast: %s vs %s" % (key_row(tr["out"][pos]), key_row(base["out"][i])),
                                  "rule-based stage (no documented timeout)")
                    break
    # another configuration: caller-chosen column names (the row keys of the result follow the configuration); untraced —
    # the statement compares the real rows with the rows of the default configuration
    import copy

    try:
        st = {}
        cb = Balancer(reaction_col="rxn", id_col="rid", n_jobs=4, batch_size=max(2, len(inputs) // 3))
        out = cb.rebalance([{"rxn": r, "rid": 500 + 3 * i, "note": i} for i, r in enumerate(copy.deepcopy(inputs))], output_dict=True, stats=st)
        out = [dict({k: v for k, v in r.items() if k != "rxn"}, reaction=r.get("rxn")) for r in out]
        err = None
    except Exception as e:
        out, st, err = None, None, "%s: %s" % (type(e).__name__, e)
    ctx.count("layout:custom-column-names")
    results.append(("columns rxn/rid", list(range(len(inputs))), {"out": out, "stats": st, "error": err, "n_jobs": 4}))
    statement(ctx, inputs, results)
    return inputs, results


def search(ctx):
    explore(ctx, 60, 6, compare=False)


def run(ctx):
    built, drv = prepare(
        ctx,
        MODULE,
        "a seeded subset of the shared workload processed (a) as one batch with 12 workers, (b) under seeded permutations x "
        "batch sizes {1,2,3,5,7,n/2+1,n+1} x worker counts {1,2,4,8,16}, (c) one reaction at a time, (d) as the second and third call "
        "on one long-lived Balancer object that first processed other rows, (e) the rows that never reach the MCS stage on a machine whose clock runs fast (every reading 30 s later), "
        "(f) under caller-chosen column names (reaction_col='rxn', "
        "id_col='rid', own ids, extra column); all rows (reaction, solved, "
        "method, confidence, rules, issue) must be identical per reaction and the statistics identical; every layout is traced "
        "and compared with the Lean row machine, whose single-row answer must equal every real answer "
        "(non-trivial: every case; distinct by reaction and layout)",
        ["wall-clock MCS timeouts under load are oracle non-determinism in the model; a reaction whose search is near the 1 s "
         "RDKit budget could legitimately differ between layouts — none is in the quick sample"],
    )
    if drv:
        quick = ctx.tier == "quick"
        inputs, results = explore(ctx, 20 if quick else 400, 2 if quick else 12)
        ctx.sample({"layouts": [r[0] for r in results], "reactions": len(inputs)})
    return ctx.finish(search)
