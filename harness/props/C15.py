"""C15 — atom-map removal keeps every molecule chemically identical.

Lean side: `Model/Aam.lean` (two scanners = the two `re.sub` calls of `remove_atom_mapping`), `Properties/C15.lean`
(token-wise action, finite shape of every rewrite, no map class survives, idempotence, generated valence-class table).
This file ties the model to the code (scanners vs CPython `re` with the documented patterns, and vs the real
`remove_atom_mapping`) and states the property independently against RDKit: for a valid SMILES whose organic-subset atoms
are closed-shell, the output parses, carries no map number, and every molecule has the canonical isomeric SMILES
(isotopes, charges, hydrogen counts, tetrahedral and double-bond stereo included) of the input with
`SetAtomMapNum(0)` on every atom."""
import itertools
import re

from rdkit import Chem

import chem
import gen_valence
from core import quiet

quiet()
MODULE = "SynRBLModel.Properties.C15"
CALL_SITE = "synrbl/SynUtils/chem_utils.py:remove_atom_mapping"

# the patterns the Lean scanners claim to implement (Model/Aam.lean header)
PAT1 = re.compile(r":\d+\]")
PAT2 = re.compile(r"\[(?!(?:P|S|I)H[2-9]\])(?P<atom>(B|C|N|O|P|S|F|Cl|Br|I){1,2})(?:H\d?)?\]")
ORGANIC_Z = {5, 6, 7, 8, 9, 15, 16, 17, 35, 53}
# known remaining defect (NOTES.md, Properties/C15.lean `C15_witness_oxo_hydride`)
OXO_HYDRIDE = "oxo-hydride-unbracketed"
ALPHABET = "[]:HCNOPSFlBrI0123456789@+-=#().cn%"
BODY_ALPHABET = "CNPSIBrlHF0129:@+-"[:16]  # 16 symbols: C N P S I B r l H F 0 1 2 9 : @
PLANTED = [
    "CH3:1", "C:12", "SH2:3", "PH5", "IH3:9", "nH", "cH:4", "C@H:5", "C@@:6", "13CH4", "NH4+", "O-:7", "Cl", "ClH", "Br",
    "BrH2", "Si", "Sn", "Sc", "Cu", "Na+:8", "CN", "CC", "BB", "CCl", "ClBr", "CH10", "CH4", "NH3", "OH2", "SH", "PH", "B",
    "FH", "IH", "IH2", "SH1", "PH0", "C:", ":1", "C:1:2", "", "H", "2H", "H+", "OH-", "S:5", "SH6:11", "PPH2",
]


def real_fn():
    from synrbl.SynUtils.chem_utils import remove_atom_mapping

    return remove_atom_mapping


# ------------------------------------------------------------------------------------------------ correspondence
def gen_strings(rng, n):
    out = []
    for _ in range(n):
        mode = rng.random()
        k = rng.randint(0, 12)
        s = "".join(rng.choice(ALPHABET) for _ in range(k))
        if mode < 0.6:
            for _ in range(rng.randint(1, 3)):
                pos = rng.randint(0, len(s))
                body = rng.choice(PLANTED)
                if rng.random() < 0.3:
                    body += ":" + str(rng.randint(0, 120))
                frag = "[" + body + "]"
                if rng.random() < 0.1:
                    frag = rng.choice([frag[:-1], frag[1:], "[" + frag, frag + "]"])
                s = s[:pos] + frag + s[pos:]
        out.append(s)
    return out


def exhaustive_bodies(maxlen, alphabet=BODY_ALPHABET):
    for n in range(0, maxlen + 1):
        for t in itertools.product(alphabet, repeat=n):
            yield "[" + "".join(t) + "]"


def exhaustive_interleavings(maxlen, alphabet=":1[]CH"):
    for n in range(0, maxlen + 1):
        for t in itertools.product(alphabet, repeat=n):
            yield "".join(t)


def corr(ctx, strings, label, chunk=20000):
    """model vs `re` with the documented patterns, and vs the real function"""
    fn = real_fn()
    bad = 0
    strings = list(strings)
    for i in range(0, len(strings), chunk):
        part = strings[i : i + chunk]
        ans = ctx.driver([{"op": "aamBatch", "ss": part}])[0]
        for s, removed, dropped in zip(part, ans["removed"], ans["dropped"]):
            d = PAT1.sub("]", s)
            r = PAT2.sub(r"\g<atom>", d)
            impl = fn(s)
            ctx.case(("corr", s), nontrivial=(impl != s))
            if dropped != d or removed != r:
                bad += 1
                if bad <= 3:
                    ctx.corr_break("Aam scanners vs CPython re", s, {"dropped": dropped, "removed": removed}, {"dropped": d, "removed": r})
            if removed != impl:
                bad += 1
                if bad <= 3:
                    ctx.corr_break("Aam.remove vs remove_atom_mapping", s, removed, impl)
    ctx.count("corr:" + label, len(strings))
    ctx.traces += len(strings)
    return bad


def corr_tokens(ctx, strings):
    """the single-string op: token view, token-level result = string-level result (theorem C15_remove_print, replayed)"""
    ans = ctx.driver([{"op": "aam", "s": s} for s in strings])
    fn = real_fn()
    for s, a in zip(strings, ans):
        ctx.case(("tok", s), nontrivial=a["tokens"] is not None)
        if a["removed"] != fn(s):
            ctx.corr_break("Aam.remove vs remove_atom_mapping", s, a["removed"], fn(s))
        if a["tokens"] is not None and a["tokensOut"] != a["removed"]:
            ctx.corr_break("Aam token view vs string scanner", s, a["tokensOut"], a["removed"])
    ctx.traces += len(strings)


# ------------------------------------------------------------------------------------------------ independent statement
def side_facts(smiles):
    """(mol, in_domain) — None if RDKit rejects the text; in_domain = no radical electrons on organic-subset atoms"""
    m = Chem.MolFromSmiles(smiles)
    if m is None:
        return None, False
    ok = all(a.GetNumRadicalElectrons() == 0 for a in m.GetAtoms() if a.GetAtomicNum() in ORGANIC_Z)
    return m, ok


def has_oxo_hydride(smiles):
    """does the input contain a neutral bracket hydride of N/Cl/Br/I (no isotope, no chirality — a shape the function
    unbrackets) that RDKit's sanitization turns into a charged atom (pentavalent-N / hypervalent-halogen oxo notation)?
    Decided from RDKit's own before/after-sanitization view of the input, not from the model."""
    raw = Chem.MolFromSmiles(smiles, sanitize=False)
    san = Chem.MolFromSmiles(smiles)
    if raw is None or san is None or raw.GetNumAtoms() != san.GetNumAtoms():
        return False
    for a, b in zip(raw.GetAtoms(), san.GetAtoms()):
        if (
            a.GetAtomicNum() in (7, 17, 35, 53)
            and not a.GetIsAromatic()
            and a.GetFormalCharge() == 0
            and a.GetNumExplicitHs() >= 1
            and a.GetIsotope() == 0
            and a.GetChiralTag() == Chem.ChiralType.CHI_UNSPECIFIED
            and b.GetFormalCharge() != 0
        ):
            return True
    return False


def canon(m):
    """canonical isomeric SMILES after one write/read round trip: RDKit's canonical form of a molecule whose maps were
    cleared in memory can differ from the form it gives the re-read text in the parity marks of pseudo-asymmetric centres
    (cis/trans-1,4-cyclohexanes: `[C@H]…[C@H]` vs `[C@@H]…[C@@H]`, the same molecule); the round trip removes that"""
    smi = Chem.MolToSmiles(m)
    m2 = Chem.MolFromSmiles(smi)
    return Chem.MolToSmiles(m2) if m2 is not None else smi


def unmapped_canon(m):
    m = Chem.Mol(m)
    for a in m.GetAtoms():
        a.SetAtomMapNum(0)
    return canon(m)


def stmt(ctx, s, origin="", report=True):
    """the property on one input, decided with RDKit only. Returns 'ok' | 'invalid' | 'radical' | mechanism"""
    out = real_fn()(s)
    sides_in, sides_out = s.split(">"), out.split(">")
    verdict = "ok"

    def fail(mech, detail):
        if mech in ("output-unparsable", "molecule-changed") and any(has_oxo_hydride(x) for x in sides_in if x):
            mech = OXO_HYDRIDE
        if report:
            ctx.violation(mech, s, "%s; output=%r; origin=%s" % (detail, out, origin), CALL_SITE)
        return mech

    mols = [side_facts(x) if x else (Chem.Mol(), True) for x in sides_in]
    if any(m is None for m, _ in mols):
        return "invalid"
    if len(sides_in) != len(sides_out):
        return fail("reaction-arrows-changed", "sides %d -> %d" % (len(sides_in), len(sides_out)))
    if PAT1.search(out) or re.search(r":\d+\]", out):
        return fail("map-number-survives", "':n]' left in the output")
    for (mi, dom), si, so in zip(mols, sides_in, sides_out):
        if not si:
            if so:
                return fail("molecule-changed", "empty side became %r" % so)
            continue
        mo = Chem.MolFromSmiles(so)
        if mo is None:
            if dom:
                return fail("output-unparsable", "side %r -> %r" % (si, so))
            verdict = "radical"
            continue
        if any(a.GetAtomMapNum() != 0 for a in mo.GetAtoms()):
            return fail("map-number-survives", "RDKit still reads a map number in %r" % so)
        if not dom:
            verdict = "radical"
            continue
        want, got = unmapped_canon(mi), canon(mo)
        if want != got:
            return fail("molecule-changed", "side %r: expected %s, got %s" % (si, want, got))
        ti, to = si.split("."), so.split(".")
        if len(ti) != len(to):
            return fail("molecule-changed", "number of '.'-separated molecules %d -> %d" % (len(ti), len(to)))
        for a, b in zip(ti, to):  # molecule by molecule, in order, where the pieces are molecules on their own
            ma, mb = Chem.MolFromSmiles(a), Chem.MolFromSmiles(b)
            if ma is not None and mb is not None and unmapped_canon(ma) != canon(mb):
                return fail("molecule-changed", "molecule %r -> %r" % (a, b))
    return verdict


def run_stmt(ctx, inputs, label):
    for s in inputs:
        v = stmt(ctx, s, label)
        out_changed = real_fn()(s) != s
        ctx.case(("stmt", s), nontrivial=(v == "ok" and out_changed))
        ctx.count("stmt:%s:%s" % (label, v))
        if v not in ("ok", "invalid", "radical") and len(ctx.violations) > 25:
            return


# ------------------------------------------------------------------------------------------------ generators
def gen_element_atoms(ctx, per_element):
    """every element as a bracket atom x H count x charge x isotope x chirality x map, alone and in small contexts"""
    rng = ctx.rng
    hs = ["", "H", "H2", "H3", "H4", "H0", "H1"]
    charges = ["", "+", "-", "+2", "-2", "++", "+3"]
    maps = ["", ":1", ":7", ":12", ":120", ":0", ":007"]
    out = []
    for z in range(1, 119):
        sym = chem.element_symbol(z)
        mass = int(round(Chem.GetPeriodicTable().GetAtomicWeight(z)))
        combos = set()
        for h in hs[:5]:
            for q in charges[:3]:
                combos.add(("", h, q))
        while len(combos) < per_element:
            combos.add((rng.choice(["", str(mass), str(mass + 1)]), rng.choice(hs), rng.choice(charges)))
        for iso, h, q in sorted(combos):
            if sym == "H" and h:
                continue
            body = iso + sym + h + q
            m = rng.choice(maps)
            out.append("[%s%s]" % (body, m))
            ctxs = [
                "C[%s%s]C", "[%s%s](C)C", "O=[%s%s]", "[CH3:3][%s%s][CH3:4]", "F[%s%s](F)(F)F", "[%s%s]1CCCC1",
                "c1cc[%s%s]cc1", "[Na+:2].[%s%s]", "[%s%s]>>[%s%s]",
            ]
            c = rng.choice(ctxs)
            out.append(c % ((body, m) * (c.count("%s") // 2)))
            if h in ("", "H"):
                chir = rng.choice(["@", "@@"])
                tail = "(C)(O)F" if h == "" else "(C)O"
                out.append("N[%s%s%s%s%s%s]%s" % (iso, sym, chir, h, q, m, tail))
    return out


def gen_organic_forms():
    """every shape the function can rewrite, with and without a map number, in every environment of the generated
    valence table (single/double/triple bonds to F, O, N or to F, C, C), plus lower-case aromatic forms"""
    out = []
    for x in gen_valence.ORGANIC1:
        for h in gen_valence.HSPELL:
            for env in gen_valence.all_envs():
                e = gen_valence.env_text(env)
                out.append("[%s%s]%s" % (x, h, e))
                out.append("[%s%s:%d]%s" % (x, h, 1 + sum(env[:3]), e))
    for a in ["c", "n", "o", "s", "p", "b"]:
        for h in ["", "H"]:
            out.append("[%s%s:1]1cccc1" % (a, h))
            out.append("[%s%s:1]1ccccc1" % (a, h))
    return out


REGRESSION = [
    "C[SH2]C", "C[SH2:3]C", "[PH5]", "[PH5:1]", "[CH3:1][SH2:2][CH3:3]", "F[SH4]F", "F[IH2](F)F", "[IH3]", "[SH6]", "[SH4:2]",
    "c1:c:c:c:c:c:1", "[cH:1]1:[cH:2]:[cH:3]:[cH:4]:[cH:5]:[cH:6]:1", "c1:c:c2:c:c:c:c:c:2:c:c:1", "C1:C:C:C:C:C:1",
    "c1:c:c:c:c:c:1-c1:c:c:c:c:c:1", "c%10:c:c:c:c:c:%10", "c%10ccccc%10", "[CH3:1][c:2]1:[cH:3]:[cH:4]:[cH:5]:[cH:6]:[cH:7]:1",
    "[CH3:1][CH2:2][OH:3]>>[CH3:1][CH:2]=[O:3]", "[CH3:1][C:2](=[O:3])[OH:4].[CH3:5][OH:6]>>[CH3:1][C:2](=[O:3])[O:6][CH3:5].[OH2:4]",
    "[Na+:1].[Cl-:2]", "[13CH4:1]", "[2H:1][O:2][2H:3]", "[NH4+:1]", "[N+:1](=[O:2])([O-:3])[c:4]1[cH:5][cH:6][cH:7][cH:8][cH:9]1",
    "[C@:1]([F:2])([Cl:3])([Br:4])[I:5]", "[C@@H:1]([F:2])([Cl:3])[Br:4]", "[F:1]/[CH:2]=[CH:3]/[F:4]", "[F:1]/[CH:2]=[CH:3]\\[F:4]",
    "[Si:1]([CH3:2])([CH3:3])([CH3:4])[CH3:5]", "[Sn:1]([CH3:2])([CH3:3])([CH3:4])[Cl:5]", "[Cu:1][I:2]", "[Sc+3:1]", "[se:1]1[cH:2][cH:3][cH:4][cH:5]1",
    "[nH:1]1[cH:2][cH:3][cH:4][cH:5]1", "[BH3:1]", "[BH4-:1]", "[OH2:1]", "[FH:1]", "[ClH:1]", "[BrH:1]", "[IH:1]", "[NH3:1]", "[CH4:1]", "[SH2:1]",
    "[PH3:1]", "[H:1][H:2]", "[H+:1]", "[OH-:1]", "[C-:1]#[O+:2]", "[N-:1]=[N+:2]=[N-:3]", "[CH2:1]=[CH2:2]", "[CH:1]#[CH:2]", "[O:1]=[C:2]=[O:3]",
    "[NH3:1]->[Cu:2]", "[CH3:1][S:2]([CH3:3])->[Pt:4]", "[S:1](=[O:2])(=[O:3])([OH:4])[OH:5]", "[P:1](=[O:2])([OH:3])([OH:4])[OH:5]",
    "[CH3:1][S:2](=[O:3])[CH3:4]", "[CH3:1][P:2]([CH3:3])([CH3:4])=[O:5]", "[I:1]([F:2])([F:3])[F:4]", "[CH3:1][SH:2]", "[CH3:1][PH2:2]", "[CH3:1][PH:2][CH3:3]",
    "[CH3:1][SH:2]([CH3:3])=[O:4]", "[CH3:1][PH:2](=[O:3])[CH3:4]", "[OH:1][PH2:2]=[O:3]", "[OH:1][PH:2](=[O:3])[OH:4]", "F[PH4]", "F[PH2](F)F",
    "C[N](C)(C)=O", "C[N:1](=O)=O", "O[N](=O)=O", "O[Cl](=O)(=O)=O", "C[S](C)(=O)=O", "C[P](C)(C)=O", "C[PH](C)=O", "C[SH](=O)=O",
    "C1.C1", "[CH3:1]1.[CH3:2]1", "[CH2:1]%12[CH2:2][CH2:3]%12", "[CH3:5][CH2:10][U:92]", "[U+6:1]", "[Og:118]", "[*:1]C", "[R:1]", "C[*:2]", "[CH3:1]*",
]


def gen_corpus_forms(ctx, n_mols, n_rxn):
    """RDKit-emitted SMILES of corpus molecules under random map assignments and writer options"""
    rng = ctx.rng
    mols = chem.corpus_molecules()
    pick = mols if n_mols >= len(mols) else rng.sample(mols, n_mols)
    out = []
    for smi in pick:
        m = Chem.MolFromSmiles(smi)
        if m is None:
            continue
        mode = rng.random()
        idx = list(range(m.GetNumAtoms()))
        rng.shuffle(idx)
        for a in m.GetAtoms():
            a.SetAtomMapNum(0)
        k = len(idx) if mode < 0.5 else rng.randint(0, len(idx))
        for j, i in enumerate(idx[:k]):
            m.GetAtomWithIdx(i).SetAtomMapNum(rng.choice([j + 1, rng.randint(1, 999)]))
        kw = {}
        r = rng.random()
        if r < 0.25:
            kw["allHsExplicit"] = True
        elif r < 0.45:
            kw["allBondsExplicit"] = True
        elif r < 0.6:
            kw["kekuleSmiles"] = True
        elif r < 0.7:
            kw = {"allHsExplicit": True, "allBondsExplicit": True}
        if rng.random() < 0.3:
            kw["canonical"] = False
        if rng.random() < 0.2:
            kw["doRandom"] = True
        try:
            if kw.get("kekuleSmiles"):
                Chem.Kekulize(m, clearAromaticFlags=False)
            out.append(Chem.MolToSmiles(m, **kw))
        except Exception:
            out.append(Chem.MolToSmiles(m))
        out.append(smi)
    rx = chem.corpus_reactions()
    out += rx if n_rxn >= len(rx) else rng.sample(rx, n_rxn)
    return out


# ------------------------------------------------------------------------------------------------ search
# inputs of the known remaining defect (kept apart so that the regression list holds on the current code)
OXO_WITNESSES = ["C[NH](C)=O", "C[NH:2](C)=O", "[NH3]=O", "C=[NH]=O", "C[NH]#N", "[NH](=O)=O", "[ClH](=O)(=O)=O", "[IH](=O)=O"]


def search(ctx):
    """a proof obligation or the model/code correspondence broke: hunt for an input on which the real function changes a
    molecule or leaves a map number, over everything the generators can produce"""
    for label, gen in (
        ("regression", lambda: REGRESSION),
        ("organic-forms", gen_organic_forms),
        ("elements", lambda: gen_element_atoms(ctx, 40)),
        ("corpus", lambda: gen_corpus_forms(ctx, 10**9, 10**9)),
    ):
        run_stmt(ctx, gen(), label)
        if ctx.violations:
            return


def run(ctx):
    ctx.rule = (
        "correspondence: random strings over '%s' of length 0..12 with 0-3 planted bracket atoms (50 planted bodies, "
        "optionally with ':n', optionally with a bracket dropped or doubled), every bracket body of length <= 3 (quick) / "
        "<= 5 (thorough) over the 16 symbols '%s', every string of length <= 6 (quick) / <= 7 (thorough) over ':1[]CH'; "
        "statement: every element as bracket atom x H count x charge x isotope x chirality x map number alone and in 9 "
        "contexts; every rewritable shape X/XH/XHd (10 symbols x 12 spellings) in fluorine/oxo/nitrile environments of bond "
        "order 0..7 with and without map; 100 regression inputs (hypervalent hydrides, explicit aromatic bonds, %%nn ring "
        "closures, stereo, isotopes, ions, dative bonds, wildcards); corpus molecules re-emitted by RDKit under random map "
        "assignments and writer options (allHsExplicit, allBondsExplicit, kekuleSmiles, non-canonical, random order) and "
        "corpus reactions (non-trivial = valid closed-shell input that the function changes; distinct by input string)"
        % (ALPHABET, BODY_ALPHABET)
    )
    ctx.assumptions = [
        "ASCII input (Python's \\d also accepts non-ASCII decimal digits; SMILES are ASCII)",
        "RDKit reads a bracket atom without its ':n' as the same atom with map number 0 (tested by the statement)",
        "what RDKit makes of a bare organic-subset atom depends only on its symbol, its bonds' orders and whether multiple "
        "bonds go to O/N (clean-up step) — the 54 environments of the valence table; other neighbours are sampled by the "
        "statement on generated and corpus molecules",
        "closed-shell domain: inputs with radical electrons on B C N O P S F Cl Br I are outside the property",
    ]
    quick = ctx.tier == "quick"
    ctx.gen_tables()
    built = ctx.build([MODULE])
    drv = ctx.build_driver()
    if built:
        ctx.audit(MODULE)
    if drv:
        corr(ctx, gen_strings(ctx.rng, 30000 if quick else 300000), "sampled")
        corr(ctx, ["[" + b + "]" for b in PLANTED] + REGRESSION, "planted")
        corr(ctx, exhaustive_bodies(3 if quick else 5), "bodies-exhaustive")
        corr(ctx, exhaustive_interleavings(6 if quick else 7), "interleavings-exhaustive")
        corr(ctx, gen_organic_forms(), "organic-forms")
        corr_tokens(ctx, REGRESSION + gen_strings(ctx.rng, 2000))
        ctx.exhaustive = not quick
    # the independent statement on the real function
    run_stmt(ctx, REGRESSION, "regression")
    run_stmt(ctx, OXO_WITNESSES, "oxo-hydrides")
    run_stmt(ctx, gen_organic_forms(), "organic-forms")
    run_stmt(ctx, gen_element_atoms(ctx, 18 if quick else 60), "elements")
    run_stmt(ctx, gen_corpus_forms(ctx, 2500 if quick else 10**9, 400 if quick else 10**9), "corpus")
    ctx.sample({"input": "[CH3:1][SH2:2][c:3]1:[cH:4]:[cH:5]:[cH:6]:[cH:7]:[cH:8]:1", "output": real_fn()("[CH3:1][SH2:2][c:3]1:[cH:4]:[cH:5]:[cH:6]:[cH:7]:[cH:8]:1")})
    ctx.extra["valence_classes"] = ctx.gen_info.get("valence_classes")
    return ctx.finish(search)
