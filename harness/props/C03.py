"""C03 — a declined reaction is returned untouched and with a reason."""
import pipeline
from _rowmachine import deep_search, prepare

MODULE = "SynRBLModel.Properties.C03"


def statement(ctx, tr):
    pipeline.stmt_c03(ctx, tr["out"], tr["threshold"], inputs=tr.get("inputs"), keep_maps=tr.get("keep_maps", False))


def search(ctx):
    deep_search(ctx, statement)


def run(ctx):
    built, drv = prepare(
        ctx,
        MODULE,
        "shared traced run (see C01) and the untraced runs under 5 configurations (see C01) incl. product-side carbon surplus, two-sided imbalances with water insertion, MCS failures; "
        "statement on the real rows: unsolved => reaction == input_reaction and non-empty issue; solved => one of the three "
        "methods and empty/absent issue; products with more carbon than reactants (RDKit count) => declined "
        "(non-trivial = unsolved row; distinct by input)",
        ["oracle law WaterCarbonLaw (appending water does not change the carbon label) is evaluated on every traced row with "
         "inserted water"],
    )
    if drv:
        tr = pipeline.workload_mix(ctx)
        pipeline.compare_trace(ctx, tr)
        if tr["error"] or tr["out"] is None:
            ctx.corr_break("Pipeline:run-raised", {"n": len(tr["inputs"])}, "model never raises", tr["error"])
        else:
            statement(ctx, tr)
            pipeline.each_config(ctx, lambda name, c: statement(ctx, c))
            uns = [r for r in tr["out"] if not r.get("solved")]
            if uns:
                ctx.sample({"declined": uns[0]["input_reaction"], "issue": uns[0].get("issue")})
    return ctx.finish(search)
