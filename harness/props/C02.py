"""C02 — rebalancing only adds whole molecules; the given molecules are never altered."""
from collections import Counter

from rdkit import Chem
from rdkit.Chem import Descriptors

import chem
import pipeline
import pp_layer
from _rowmachine import deep_search, prepare

MODULE = "SynRBLModel.Properties.C02"

MARKER_INPUTS = [
    # given molecules whose text contains the substrings the rule constraint uses as markers
    "c1ccccc1.OOC(C)(C)C.N>>c1ccccc1.OOC(C)(C)C", "CC(=O)C.O>>CC(=O)C.OO", "CCO.O>>CC=O.OO", "OO.CC(C)O>>CC(C)=O",
    "CC(O)C.[H][H]>>CC(C)=O", "CC(=O)C.[H][H]>>CC(O)C.[H][H]", "O=CC1=CC=CC=C1.C=CCBr>>OC(CC=C)C1=CC=CC=C1.[H]Br",
    "CCBr.[H]O[H]>>CCO.[H]Br", "CC(=O)OO.C=C>>CC(=O)O.C1OC1", "C=C.OOC(=O)c1ccccc1>>C1CO1", "CCO.[O-][Cl+3]([O-])([O-])[O-]>>CC=O",
    "CC=O.[OH-].[Na+]>>CC(=O)[O-]", "CCC=O.OO>>CCC(=O)O", "CCS.OO>>CCS(=O)(=O)O", "CCS.OO.OO>>CCS(=O)C",
    "C=CC.OO>>CC1CO1", "CC(C)(C)OO.CC=C>>CC1CO1.CC(C)(C)O", "N.OO.CC=O>>CC=NO", "[H][H].C=C>>CC", "[H][H].CC=O>>CC",
    "CCO.[H]Cl>>CCCl", "CC[O-].[Na+].[H]Cl>>CCO", "CCOOCC>>CCO", "CC(=O)OOC(C)=O>>CC(=O)O", "OOCC>>OCC",
    "CC(C)OO.N>>CC(C)OO", "CCO.OOCC>>CC=O.OOCC", "c1ccccc1.[O-][N+](=O)c1ccccc1.[H][H]>>Nc1ccccc1.c1ccccc1",
]


def closed_shell(tok):
    m = Chem.MolFromSmiles(tok)
    return m is not None and Descriptors.NumRadicalElectrons(m) == 0


def canon_tokens(side):
    out = []
    for t in side.split("."):
        s = chem.strip_maps(t)
        out.append(s if s is not None else t)
    return Counter(out)


def statement(ctx, tr):
    for raw, r in zip(tr["inputs"], tr["out"]):
        if r.get("issue") == "Invalid reaction SMILES.":
            continue
        inp, got = r["input_reaction"], r["reaction"]
        ia, ib = inp.split(">>")
        try:
            ga, gb = got.split(">>")
        except ValueError:
            ctx.violation("returned-reaction-malformed", raw, got, "synrbl/balancing.py")
            continue
        changed = got != inp
        ctx.case(("c02", raw), nontrivial=changed)
        for side, (i_side, g_side) in (("reactants", (ia, ga)), ("products", (ib, gb))):
            ci, cg = Counter(i_side.split(".")), Counter(g_side.split("."))
            missing = ci - cg
            if missing:
                ctx.violation("given-molecule-altered-or-removed:" + side, raw,
                              "input_reaction=%s returned=%s missing=%s" % (inp, got, dict(missing)),
                              "synrbl/SynRuleImputer/synthetic_rule_constraint.py / post-processing")
                break
            # oracle laws of the Lean theorem: prefix + dot-led suffix (monitored, reported under their own mechanism)
            if not g_side.startswith(i_side) or not (g_side[len(i_side):] == "" or g_side[len(i_side)] == "."):
                ctx.count("law:suffix-not-dot-led-or-not-prefix")
                ctx.violation("oracle-law-side-not-extended-by-dot-led-suffix:" + side, raw,
                              "input_reaction=%s returned=%s" % (inp, got), "post-processing / rule constraint")
                break
        # input_reaction = input with maps removed, otherwise the same molecules (closed-shell tokens only)
        try:
            ra, rb = raw.split(">>")
        except ValueError:
            continue
        for rs, is_ in ((ra, ia), (rb, ib)):
            if all(closed_shell(t) for t in rs.split(".")):
                if canon_tokens(rs) != canon_tokens(is_):
                    ctx.violation("input_reaction-is-not-the-input-without-maps", raw, "input_reaction=%s" % inp,
                                  "synrbl/SynUtils/chem_utils.py:remove_atom_mapping")
            else:
                ctx.count("side-with-radical-token(outside domain)")
        if ":" in inp and any(c.isdigit() for c in inp.split(":", 1)[1][:3]) and "]" in inp:
            import re

            if re.search(r":\d+\]", inp) or re.search(r":\d+\]", got):
                ctx.violation("atom-map-survives", raw, "input_reaction=%s returned=%s" % (inp, got), "chem_utils.py:remove_atom_mapping")


def search(ctx):
    tr = pipeline.traced_run(MARKER_INPUTS + list(pipeline.SPECIALS), n_jobs=14)
    if tr["out"] is not None:
        statement(ctx, tr)
    if not ctx.violations:
        deep_search(ctx, statement)


def run(ctx):
    built, drv = prepare(
        ctx,
        MODULE,
        "shared traced mix + 28 marker inputs (given molecules whose text contains '.[H]', '.[O]' or '.OO' at a token start: "
        "[H][H], [H]Br, [H]O[H], hydroperoxides, peracids, hydrogen peroxide itself, on either side and as non-first token); "
        "statement on the real rows: per side the multiset of '.'-tokens of input_reaction is contained in the returned side "
        "(string equality of tokens), the returned side is the given side plus a '.'-led suffix, input_reaction has the same "
        "molecules as the raw input with maps cleared by RDKit, no map class survives (non-trivial = row whose reaction was "
        "changed; distinct by input)",
        ["oracle laws ContainLaws (merged compound and curated reaction extend the input) and the dot-led suffix are evaluated "
         "on every returned row"],
    )
    if drv:
        mix = pipeline.workload_mix(ctx)
        pipeline.compare_trace(ctx, mix)
        if mix["out"] is not None:
            statement(ctx, mix)
        pipeline.each_config(ctx, lambda name, c: statement(ctx, c), with_kept_maps=False)
        tr = pipeline.traced_run(MARKER_INPUTS, n_jobs=8)
        pipeline.compare_trace(ctx, tr)
        pp_layer.corr_postprocess(ctx, pp_layer.cases_from_trace(mix) + pp_layer.cases_from_trace(tr))
        if tr["error"] or tr["out"] is None:
            ctx.corr_break("Pipeline:run-raised", {"n": len(MARKER_INPUTS)}, "model never raises", tr["error"])
        else:
            statement(ctx, tr)
            for i in (0, 1, 6):
                ctx.sample({"input": MARKER_INPUTS[i], "returned": tr["out"][i]["reaction"], "solved": tr["out"][i]["solved"]})
    return ctx.finish(search)
