"""C08 — rule-based completions add up exactly to the imbalance they are asked to fill."""
import itertools
import json

import chem
import layers
from core import quiet

quiet()
MODULE = "SynRBLModel.Properties.C08"
HALOGENS = {9, 17, 35, 53}


def named_comp(smiles):
    tc = chem.true_comp(smiles)
    if tc is None:
        return None
    return {("Q" if z == "Q" else chem.element_symbol(z)): n for z, n in tc.items()}


def stmt_solutions(ctx, dbname, d, sols):
    """each completion: database compounds only, ratio >= 1, true compositions sum to the imbalance"""
    db_smiles = {e["smiles"] for e in layers.load_db(dbname)}
    want = {k: v for k, v in d.items() if v != 0}
    for sol in sols:
        tot = {}
        ok = True
        for smi, ratio in sol:
            if smi not in db_smiles or not isinstance(ratio, int) or ratio < 1:
                ok = False
                break
            c = named_comp(smi)
            if c is None:
                ok = False
                break
            for k, v in c.items():
                tot[k] = tot.get(k, 0) + v * ratio
        tot = {k: v for k, v in tot.items() if v != 0}
        if not ok or tot != want:
            ctx.violation(
                "completion-does-not-sum-to-imbalance",
                {"db": dbname, "imbalance": d, "completion": sol},
                "sum=%s" % tot,
                "synrbl/SynRuleImputer/synthetic_rule_matcher.py",
            )
            return False
    return True


def stmt_records(ctx):
    for dbname in ("rulesManager", "automatedRules"):
        for e in layers.load_db(dbname):
            c = named_comp(e["smiles"])
            rec = {k: v for k, v in e["Composition"].items() if v != 0}
            ctx.case(("record", dbname, e["smiles"], e.get("formula")))
            if c is None or c != rec:
                ctx.violation(
                    "recorded-composition-differs-from-smiles",
                    {"db": dbname, "smiles": e["smiles"], "recorded": e["Composition"]},
                    "true=%s" % c,
                    dbname,
                )


def is_dihalogen(token):
    at = chem.atoms_of(token)
    return at is not None and len(at) == 2 and all(a[0] in HALOGENS for a in at) and sum(a[2] for a in at) == 0


def stmt_no_dihalogen_added(ctx, rxn_before, rxn_after):
    pb = rxn_before.split(">>")[1].split(".")
    pa = rxn_after.split(">>")[1].split(".")
    added = list(pa)
    for t in pb:
        if t in added:
            added.remove(t)
    for t in added:
        if is_dihalogen(t):
            ctx.violation(
                "dihalogen-added-to-products",
                rxn_before,
                "after=%s" % rxn_after,
                "synrbl/SynRuleImputer/synthetic_rule_constraint.py:remove_banned_reactions",
            )
            return


def gen_vectors(ctx, dbname, n):
    rng = ctx.rng
    db = layers.load_db(dbname)
    elems = sorted({k for e in db for k in e["Composition"] if k != "Q"})
    out = []
    if ctx.tier == "thorough":
        for ks in itertools.combinations(elems[:12], 2):
            for vals in itertools.product(range(0, 4), repeat=2):
                for q in range(-2, 3):
                    d = {k: v for k, v in zip(ks, vals) if v}
                    if q:
                        d["Q"] = q
                    out.append(d)
    for _ in range(n):
        mode = rng.random()
        d = {}
        if mode < 0.6:  # a sum of database compounds: solvable
            for _ in range(rng.randint(1, 2)):
                e = rng.choice(db)
                m = rng.randint(1, 2)
                for k, v in e["Composition"].items():
                    d[k] = d.get(k, 0) + v * m
            if rng.random() < 0.3:
                d.pop("Q", None) if d.get("Q", 0) == 0 else None
            if rng.random() < 0.15 and d:
                k = rng.choice(list(d))
                d[k] += rng.choice([-1, 1])
        else:
            for k in rng.sample(elems, rng.randint(1, 3)):
                d[k] = rng.randint(1, 4)
            if rng.random() < 0.5:
                d["Q"] = rng.randint(-3, 3)
        if rng.random() < 0.12 and d:
            # an element that is in SURPLUS (negative count): the rule-based stage hands such vectors to the solver for
            # two-sided imbalances after its water bookkeeping; nothing may be proposed that does not add up to the vector
            k = rng.choice([x for x in d if x != "Q"] or list(d))
            d[k] = -rng.randint(1, 2)
            if rng.random() < 0.5:
                d["H"] = d.get("H", 0) + rng.randint(1, 4)
        items = list(d.items())
        rng.shuffle(items)
        out.append({k: v for k, v in items if v != 0 or k == "Q"})
    return out


def gen_entries(ctx, n):
    rng = ctx.rng
    givens = ["CCO", "CC(=O)C", "c1ccccc1.OOC(C)(C)C", "CC(O)C.[H][H]", "O.OO", "[H]Br.CC", "[O-]C=O", "C", ""]
    adds = ["[H].[H]", "[H]", "[O]", "[O].[O]", "OO", "O", "[H].[H].[H].[H]", "[H].[H].[O]", "ClCl", "[Na+].[Cl-]",
            "[H].[H].[H]", "[O].[O].[O]", "OO.OO", "[H+]", "[OH-]", "Br", "BrBr.[H].[H]"]
    reacts = ["CC=O", "CC(=O)C.[Na]", "[H-].CCO", "C[Li:3]", "[K:1].CC", "CCO.[H]", "CCO.[H].[H]", "OO.CC",
              # given molecules whose text starts with an explicit hydrogen, behind another reactant / in front
              "CCO.[H][H]", "CC.[H]/C(C)=N/C", "[H].CCO", "CCO.[H].[H][H]", "[H][H].CCO", "CC=O.[H]Cl"]
    out = []
    for _ in range(n):
        g, a, r = rng.choice(givens), rng.choice(adds), rng.choice(reacts)
        mode = rng.random()
        if mode < 0.45:  # pipeline form, added to the products
            e = {"reactants": r, "products": g + "." + a, "added_products": a}
        elif mode < 0.6:  # pipeline form, added to the reactants
            e = {"reactants": r + "." + a, "products": g, "added_products": ""}
        elif mode < 0.9:  # legacy entry without the marker
            e = {"reactants": r, "products": (g + "." + a) if g else a}
        else:  # inconsistent marker
            e = {"reactants": r, "products": g + "." + a, "added_products": rng.choice(adds)}
        out.append(e)
    return out


def rb_reactions(ctx, n):
    from synrbl.SynUtils.chem_utils import remove_atom_mapping

    rng = ctx.rng
    rx = [remove_atom_mapping(r) for r in rng.sample(chem.corpus_reactions(), n)]
    rx += [
        "CC(=O)C>>CC(O)C", "CCO>>CC=O", "CCO>>CC(=O)O", "CC(=O)OCC>>CC(=O)O", "CCBr.[Na+].[OH-]>>CCO", "CC=O>>CCO",
        "CCCl>>CC", "ClCCl>>C", "CC(=O)C.O>>CC(=O)C.OO", "c1ccccc1.OOC(C)(C)C.N>>c1ccccc1.OOC(C)(C)C", "CCO>>CCOO",
        "O=CC1=CC=CC=C1.C=CCBr>>OC(CC=C)C1=CC=CC=C1.[H]Br", "CC[N+](C)(C)C>>CCN(C)C", "CCBr>>CC", "CCI.CCBr>>CCCC",
        "C[Mg]Br.CC=O>>CC(C)O", "CCOC(C)=O.[Li+].[OH-]>>CC(=O)[O-]", "CS(=O)(=O)Cl.CN>>CNS(C)(=O)=O",
    ]
    labels = []
    for r in rx:
        rs, ps = r.split(">>")
        rc, pc = chem.carbon_count(rs), chem.carbon_count(ps)
        labels.append("balanced" if rc == pc else ("products" if rc > pc else "reactants"))
    return rx, labels


def search(ctx):
    stmt_records(ctx)
    if ctx.violations:
        return
    for dbname in ("rulesManager", "automatedRules"):
        db = layers.load_db(dbname)
        save_tier = ctx.tier
        ctx.tier = "thorough"
        vecs = gen_vectors(ctx, dbname, 4000)
        ctx.tier = save_tier
        for d in vecs:
            try:
                sols = layers.with_alarm(1.0, layers.real_match, db, d)
            except layers._Timeout:
                continue
            except RecursionError:
                ctx.violation("matcher-does-not-terminate", {"db": dbname, "imbalance": d}, "RecursionError", "synthetic_rule_matcher.py:dfs")
                return
            if not stmt_solutions(ctx, dbname, d, sols):
                return
    rx, labels = rb_reactions(ctx, 1500)
    after, _ = layers.real_rule_based_rows([{"reaction": r, "id": str(i), "carbon_balance_check": l} for i, (r, l) in enumerate(zip(rx, labels))])
    for r, a in zip(rx, after):
        stmt_no_dihalogen_added(ctx, r, a["reaction"])


def run(ctx):
    ctx.rule = (
        "imbalance vectors: sums of 1-3 database compounds with multiplicities (solvable), perturbed sums and random small "
        "vectors over the database's elements with Q in -3..3, key order shuffled; thorough adds all vectors over pairs of the "
        "first 12 database elements with counts 0..3 and Q in -2..2 (non-trivial = at least one completion returned; distinct by "
        "vector and database); constraint entries: given products x appended compounds x reactants covering every branch, in "
        "pipeline form (added_products), legacy form and with an inconsistent marker; rule-based rows: corpus reactions and "
        "redox/halide specials through the real RuleBasedMethod.run"
    )
    ctx.assumptions = [
        "RDKit atom lists of the database SMILES are embedded in the generated tables (recorded = derived obligation)",
        "Python str/dict/sort semantics as modelled in Py/*.lean (differentially tested against CPython in this run)",
    ]
    ctx.gen_tables()
    built = ctx.build([MODULE])
    drv = ctx.build_driver()
    if built:
        ctx.audit(MODULE)
    if drv:
        quick = ctx.tier == "quick"
        layers.corr_tables(ctx)
        layers.corr_str(ctx, layers.gen_strings(ctx.rng, 3000 if quick else 60000))
        stmt_records(ctx)
        for dbname, n in (("rulesManager", 900 if quick else 6000), ("automatedRules", 300 if quick else 2000)):
            vecs = gen_vectors(ctx, dbname, n)
            real = layers.corr_match(ctx, vecs, dbname)
            for d, sols in zip(vecs, real):
                if isinstance(sols, list) and not stmt_solutions(ctx, dbname, d, sols):
                    break
            ctx.sample({"db": dbname, "imbalance": layers.dict_pairs(vecs[0]), "completions": real[0]})
        # the imputer itself, both databases interleaved in one process; appended compounds must belong to the database in use
        ivecs = [v for v in gen_vectors(ctx, "rulesManager", 120 if quick else 1500) if sum(abs(x) for x in v.values()) <= 12]
        for dbname, d, toks in layers.corr_impute_two_databases(ctx, ivecs):
            if toks:
                db_smiles = {e["smiles"] for e in layers.load_db(dbname)}
                if any(t not in db_smiles for t in toks):
                    ctx.violation("completion-uses-compound-outside-database", {"db": dbname, "imbalance": d, "added": toks},
                                  "not in %s" % dbname, "synrbl/SynRuleImputer/synthetic_rule_imputer.py:single_impute")
                    break
        entries = gen_entries(ctx, 1500 if quick else 20000)
        t = ctx.driver([{"op": "tables"}])[0]
        from gen_tables import main as _g  # noqa: F401  (ban source is read from the generated table info)

        ban_source = ctx.gen_info.get("ban_list") or t["banList"]
        layers.corr_constraint(ctx, entries, ban_source)
        ctx.sample({"constraint_entry": entries[0]})
        rx, labels = rb_reactions(ctx, 250 if quick else 3000)
        after, stats, model = layers.corr_rbrows(ctx, rx, labels)
        for r, a in zip(rx, after):
            stmt_no_dihalogen_added(ctx, r, a["reaction"])
        ctx.sample({"rule_based_row": rx[-3], "after": after[-3]["reaction"], "stats": stats})
    return ctx.finish(search)
