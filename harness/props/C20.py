"""C20 — tautomer standardisation conserves atoms and returns valid SMILES.

Correspondence: the real `MoleculeStandardizer` (traced: group list of the first `FGQuery.get`, every call of
`standardize_enol` / `standardize_hemiketal` with its index list and result, the SMILES atom output order of every
`Chem.MolToSmiles`) against the Lean model (`Model/Standardize.lean`) fed with the recorded oracle answers: same outcome
(result graph / which error message reaches the re-query / which exception), every rewrite's edited graph is the re-parsed
real intermediate SMILES up to the recorded renumbering (symbol, charge, hydrogen count per atom, bonds), the valence
arithmetic gives RDKit's hydrogen count on every C/O atom.

Independent statement on the REAL, untraced code for every tested SMILES s (RDKit as the reference, `chem.true_comp`):
  (a) `f(s)` returns without raising           (b) the result is a string that `Chem.MolFromSmiles` parses
  (c) same composition by atomic number and same net charge as s          (d) `f(f(s)) == f(s)`
  (e) the result is not one of the error messages of the module.
The current code violates (a), (c) and (d); the failures are classified by cause from the trace (stable mechanism strings).

If the repository contains the candidate patch of `__call__` ("Fix A" in staging/C20/NOTES.md: `_rewrite_once`,
`_is_valid_rewrite`), the correspondence switches to the model of the patched loop (`runF`, theorems `C20_fixA_*`).

fgutils' group list depends on Python's string-hash randomisation (C=C(O)CC is an 'enol' in one process and a
'primary_alcohol' in the next); the check pins PYTHONHASHSEED from the run's seed and re-executes itself once.
"""
import json
import os
import re
import sys

import chem
from core import quiet

quiet()
MODULE = "SynRBLModel.Properties.C20"
SRC = "synrbl/SynChemImputer/molecule_standardizer.py"
CS_CALL = SRC + ":__call__"
CS_ENOL = SRC + ":standardize_enol"
CS_HK = SRC + ":standardize_hemiketal"

M_EMPTY = "standardizer-raises-on-empty-smiles"
M_CHARGED_ENOL = "standardizer-raises-on-charged-enol"
M_CHARGED_HK = "standardizer-raises-on-charged-hemiketal"
M_ALKOXY_HK = "standardizer-raises-on-alkoxy-hemiketal"
M_HEURISTIC = "standardizer-raises-on-enol-index-heuristic"
M_BRACKET = "standardizer-raises-on-bracket-atoms"
M_STALE = "standardizer-raises-on-stale-indices"
M_RAISE_OTHER = "standardizer-raises"
M_ERRSTR = "standardizer-error-string-as-smiles"
M_UNPARSABLE = "standardizer-returns-unparsable-smiles"
M_COMP = "standardizer-changes-composition"
M_COMP_FRESH = "standardizer-changes-composition-on-first-rewrite"
M_IDEM = "standardizer-not-idempotent"
M_IDEM_RAISE = "standardizer-second-application-raises"

M_COMP_METAL = "standardizer-changes-composition-on-metal-alkoxide"
M_COMP_BRACKET = "standardizer-changes-composition-on-bracket-atoms"
NONMETALS = {"H", "He", "B", "C", "N", "O", "F", "Ne", "Si", "P", "S", "Cl", "Ar", "As", "Se", "Br", "Kr", "Te", "I", "Xe", "At", "Rn"}
ERR_PREFIXES = ("Invalid atom indices provided", "Error in modifying molecule", "Error in sanitizing molecule")


# ------------------------------------------------------------------------------------------------ graph export
def export_graph(smiles):
    """the parsed molecule as the model sees it (None if unparsable)"""
    from rdkit import Chem

    mol = Chem.MolFromSmiles(smiles)
    if mol is None:
        return None
    return export_mol(mol)


def export_mol(mol):
    from rdkit import Chem

    kek = Chem.Mol(mol)
    try:
        Chem.Kekulize(kek, clearAromaticFlags=False)
    except Exception:  # noqa: BLE001
        kek = None
    atoms = [
        [a.GetSymbol(), a.GetFormalCharge(), a.GetNumExplicitHs(), 1 if a.GetNoImplicit() else 0, a.GetTotalNumHs()]
        for a in mol.GetAtoms()
    ]
    plain = {Chem.BondType.SINGLE: 1, Chem.BondType.DOUBLE: 2, Chem.BondType.TRIPLE: 3}
    bonds = []
    for b in mol.GetBonds():
        kb = kek.GetBondWithIdx(b.GetIdx()) if kek is not None else b
        t = kb.GetBondType()
        # bonds to metals count as special: sanitisation turns them into dative bonds when the valence is exceeded
        special = (b.GetIsAromatic() or t not in plain or b.GetBeginAtom().GetSymbol() not in NONMETALS
                   or b.GetEndAtom().GetSymbol() not in NONMETALS)
        bonds.append([b.GetBeginAtomIdx(), b.GetEndAtomIdx(), plain.get(t, 1), 1 if special else 0])
    return {"atoms": atoms, "bonds": bonds}


def comp_of_json(c):
    """driver composition -> the shape of chem.true_comp (by atomic number)"""
    from rdkit import Chem

    pt = Chem.GetPeriodicTable()
    out = {}
    for sym, n in c["elements"]:
        z = pt.GetAtomicNumber(sym)
        out[z] = out.get(z, 0) + n
    if c["charge"]:
        out["Q"] = c["charge"]
    return out


# ------------------------------------------------------------------------------------------------ the real code
_STD = {}


def standardizer():
    if "s" not in _STD:
        from synrbl.SynChemImputer.molecule_standardizer import MoleculeStandardizer

        _STD["s"] = MoleculeStandardizer()
    return _STD["s"]


def real_call(s):
    """('ok', result) or ('raises', 'Type: message')"""
    try:
        return "ok", standardizer()(s)
    except Exception as e:  # noqa: BLE001
        return "raises", "%s: %s" % (type(e).__name__, e)


class _ChemProxy:
    """stands in for the name `Chem` inside molecule_standardizer: records the atom output order of MolToSmiles"""

    def __init__(self, real, log):
        self._real = real
        self._log = log

    def __getattr__(self, k):
        return getattr(self._real, k)

    def MolToSmiles(self, mol, *a, **k):
        s = self._real.MolToSmiles(mol, *a, **k)
        try:
            order = list(mol.GetPropsAsDict(True, True)["_smilesAtomOutputOrder"])
        except Exception:  # noqa: BLE001
            order = None
        self._log.append(order)
        return s


def traced_call(s):
    """run the real `__call__` with recording wrappers; returns the trace dictionary"""
    import synrbl.SynChemImputer.molecule_standardizer as ms

    cls = ms.MoleculeStandardizer
    tr = {"input": s, "groups": None, "calls": [], "queries": [], "query_log": [], "valid": []}
    orders = []
    saved = (ms.Chem, cls.__dict__["standardize_enol"], cls.__dict__["standardize_hemiketal"], cls.__dict__.get("_is_valid_rewrite"))
    real_enol, real_hk = saved[1].__func__, saved[2].__func__

    def wrap(kind, fn):
        def w(smiles, atom_indices, *a, **k):
            rec = {"kind": kind, "smiles": smiles, "idx": [int(i) for i in atom_indices], "order": None}
            tr["calls"].append(rec)
            n0 = len(orders)
            try:
                out = fn(smiles, atom_indices, *a, **k)
            except Exception as e:  # noqa: BLE001
                rec["exc"] = "%s: %s" % (type(e).__name__, e)
                raise
            rec["result"] = out
            if len(orders) > n0:
                rec["order"] = orders[-1]
            return out

        return staticmethod(w)

    inst = cls.__new__(cls)
    base_query = standardizer().query

    class Q:
        def get(self, value):
            tr["queries"].append(value)
            ans = base_query.get(value)
            copy_ = [(str(n), [int(i) for i in idx]) for n, idx in ans]
            tr["query_log"].append((value, copy_))
            if tr["groups"] is None:
                tr["groups"] = copy_
            return ans

    inst.query = Q()
    try:
        ms.Chem = _ChemProxy(saved[0], orders)
        cls.standardize_enol = wrap("enol", real_enol)
        cls.standardize_hemiketal = wrap("hemiketal", real_hk)
        if saved[3] is not None:
            real_valid = saved[3].__func__

            def valid(smiles, result):
                v = real_valid(smiles, result)
                tr["valid"].append((smiles, result, bool(v)))
                return v

            cls._is_valid_rewrite = staticmethod(valid)
        try:
            tr["outcome"] = ("ok", inst(s))
        except Exception as e:  # noqa: BLE001
            tr["outcome"] = ("raises", "%s: %s" % (type(e).__name__, e))
            tr["exc_type"] = type(e).__name__
    finally:
        ms.Chem = saved[0]
        cls.standardize_enol = saved[1]
        cls.standardize_hemiketal = saved[2]
        if saved[3] is not None:
            cls._is_valid_rewrite = saved[3]
    return tr


def is_fixed_code():
    """the candidate fix ("Fix A" of NOTES.md: `_rewrite_once` / `_is_valid_rewrite`) is present in the repository"""
    cls = type(standardizer())
    return hasattr(cls, "_rewrite_once") and hasattr(cls, "_is_valid_rewrite")


def is_error_text(x):
    return isinstance(x, str) and x.startswith(ERR_PREFIXES)


def parse_error_text(msg):
    """error message of the module -> the model's ErrMsg as JSON"""
    if msg.startswith("Invalid atom indices provided"):
        return {"kind": "invalidIndices"}
    if msg.startswith("Error in modifying molecule"):
        return {"kind": "modifying"}
    m = re.match(r"Error in sanitizing molecule: Explicit valence for atom # (\d+) (\w+), (\d+), is greater than permitted", msg)
    if m:
        return {"kind": "sanitizing", "atom": int(m.group(1)), "sym": m.group(2), "valence": int(m.group(3))}
    return {"kind": "sanitizing-other", "text": msg[:120]}


def real_outcome_json(tr):
    """the traced outcome in the vocabulary of the driver's answer"""
    kind, val = tr["outcome"]
    ok_calls = sum(1 for c in tr["calls"] if "result" in c and not is_error_text(c["result"]))
    if kind == "ok":
        return {"outcome": "ok", "smiles": val}
    if tr["groups"] is None and not tr["calls"]:
        return {"outcome": "raises", "step": 0, "why": {"kind": "empty"}} if tr["input"] == "" or "zero-size" in val else {
            "outcome": "raises", "step": 0, "why": {"kind": "other", "text": val[:160]}}
    last = tr["calls"][-1] if tr["calls"] else None
    if last is not None and is_error_text(last.get("result")):
        # the message must have reached FGQuery.get: ValueError("RDKit was unable to parse SMILES '<message>'.")
        if tr.get("exc_type") == "ValueError" and "unable to parse SMILES '%s" % last["result"][:40] in val and tr["queries"][-1:] == [last["result"]]:
            return {"outcome": "raises", "step": ok_calls, "why": {"kind": "requery", "err": parse_error_text(last["result"])}}
        return {"outcome": "raises", "step": ok_calls, "why": {"kind": "other", "text": val[:160]}}
    if last is not None and "exc" in last:
        if last["exc"].startswith("TypeError"):
            return {"outcome": "raises", "step": ok_calls, "why": {"kind": "exception", "exc": {"kind": "noOxygen"}}}
        m = re.search(r"Range Error\s+idx.*?Failed Expression: (\d+) <", last["exc"], re.S)
        if m:
            return {"outcome": "raises", "step": ok_calls, "why": {"kind": "exception", "exc": {"kind": "atomIndex", "index": int(m.group(1))}}}
    return {"outcome": "raises", "step": ok_calls, "why": {"kind": "other", "text": val[:160]}}


def model_op(tr):
    """the driver op `standardize` for a trace: input graph, first group list, re-parsed intermediate molecules with
    their atom output orders, the canonical result (when the real call returned)"""
    from rdkit import Chem

    reparsed, orders = [], []
    last = tr["input"]
    for c in tr["calls"]:
        if "result" in c and not is_error_text(c["result"]):
            reparsed.append(export_graph(c["result"]))
            orders.append(c["order"] or [])
            last = c["result"]
    op = {
        "op": "standardize",
        "g": export_graph(tr["input"]),
        "groups": [[n, idx] for n, idx in (tr["groups"] or [])],
        "reparsed": reparsed,
        "orders": orders,
    }
    if tr["outcome"][0] == "ok":
        m = Chem.MolFromSmiles(last)
        out = Chem.MolToSmiles(m)
        op["canonSmiles"] = out
        op["canonOrder"] = list(m.GetPropsAsDict(True, True)["_smilesAtomOutputOrder"]) if m.GetNumAtoms() else []
        op["canon"] = export_graph(out)
    return op


# ------------------------------------------------------------------------------------------------ inputs
ENOLS = [
    "C=CO", "OC=C", "C(O)=C", "C(=C)O", "C=C(O)C", "CC(O)=C", "OC(C)=C", "C=C(O)CC", "CC=C(C)O", "CC(C)=C(O)C", "OC1=CCCCC1",
    "C1CCC=C(O)C1", "OC(=C)c1ccccc1", "C=C(O)C=C", "OC=CC=O", "OC=CC=CO", "OC=CO", "OC(O)=C", "C=C(O)O", "OC(C)=C(C)O",
    "CC(O)=CC(O)=C", "C=C(O)C(O)=C", "OC(=CC)C(=O)O", "C=C(O)Cl", "CS(=O)(=O)C=C(O)Cl", "N/C=C/O", "OC=CN", "FC(F)=C(O)F",
    "O/C=C/C", "O/C=C\\C", "O=C(Nc1cc(Cl)cc(Cl)c1)C1=C(O)N2CCCN=C2S1", "OC(=C)C#N", "C=C(O)c1ccc(O)cc1", "OC=C=C",
]
ENOLATES = [
    "C=C[O-]", "[O-]C=C", "CC([O-])=C", "C=C([O-])C", "[O-]C(C)=CC", "C=C[O-].[Na+]", "[Li+].[O-]C(=C)OC", "CC(=C)[O-].[K+]",
    "[O-]C=CC=O", "C=C[OH2+]", "C=C[O+](C)C", "CC(O)([O-])C", "CC([O-])([O-])C", "[O-]C(O)C", "OC(O)[CH2-]", "C=C(O)[CH2+]",
]
ENOL_ETHERS = ["C=COC", "COC=C", "C=C(OC)C", "C1=COCCC1", "C=COC(C)=O", "C=CO[Si](C)(C)C", "COC(=C)C", "C=COC=C"]
METAL_ALKOXIDES = [
    "C=CO[Na]", "C=CO[Li]", "[Na]OC=C", "CC(O[K])=C", "C[O-].[Na+]", "CO[Na]", "CC(O[Na])(O)C", "CC(O[Li])(O[Li])C",
    "C=CO[Mg]Br", "C=CO[Al](OC=C)OC=C", "CCO[Ti](OCC)(OCC)OCC", "OC(C)(C)O[Na]",
]
GEM_DIOLS = [
    "OCO", "C(O)O", "CC(O)O", "OC(O)C", "CC(O)(O)C", "OC(C)(C)O", "CC(C)(O)O", "OC(O)(C)C", "O=CC(O)O", "OC(O)C(F)(F)F",
    "OC1(O)CCCCC1", "CC(O)(O)O", "OC(O)O", "OC(O)(O)O", "OC(O)(O)C", "OC(C)(O)O", "ClC(Cl)(Cl)C(O)O", "OC(O)C(O)O",
    "OC(O)CC(O)O", "CC(O)(O)CC(O)(O)C", "Cc1ccc(C(=O)C(O)O)cc1", "OC(O)c1ccccc1", "NC(O)O", "OC(O)=O", "OC(O)N",
]
HEMIKETALS_OH_FIRST = [
    "CC(O)(OC)C", "CC(O)(OCC)C", "OC(C)(C)OC", "CC(O)OC", "OC(C)OC", "OC(OC)c1ccccc1", "CC(C)(O)OC(C)=O", "OC(C)(CC)OCC",
]
HEMIKETALS_OR_FIRST = [
    "CC(OC)(O)C", "COC(C)(C)O", "COC(O)C", "CCOC(C)(O)CC", "COC(O)c1ccccc1", "CO[C@](C)(O)CC", "CC(OC)(OC)O", "COC(C)(O)OC",
]
CYCLIC_HEMIKETALS = [
    "OC1(C)CCCO1", "CC1(O)CCCO1", "C1CCOC1(O)C", "OC1CCCCO1", "OC1OCCC1", "OC[C@H]1OC(O)[C@H](O)[C@@H](O)[C@@H]1O",
    "OCC1OC(O)(CO)C(O)C1O", "Cc1c(C)c2c(c(C)c1O)CCC(C)(O)O2", "CC(C)c1ccc2c(c1)OC1(O)c3ccccc3C(=O)C21Cl",
    "CCCC1(O)CCC(C2CCC(COc3ccc(OCC)c(F)c3F)CC2)CO1", "O=C(c1ccccc1)C1(O)Oc2ccccc2N=C1c1ccccc1", "OC1(O)OCCO1",
    "Cc1ccc(C2(O)C(=O)OC3C(O)COC32O)o1",
]
MIXTURES = [
    "C=CO.C=CO", "C=CO.O", "O.C=CO", "C=C(O)C.CC(O)(O)C", "CC(O)(O)C.C=C(O)C", "CC(=O)O.C=CO", "C=CO.CC=O", "OCO.OCO",
    "C=CO.C=CO.C=CO", "CCO.CC(O)(O)C.CCN", "C(O)(O)C=CO", "OC(O)C=CO", "OC=CC(O)O", "[Na+].[Cl-]", "O", "C.C", "O.O=CCC=O",
    "CC(O)(O)C.[Na+].[Cl-]", "OC=C.OC(O)C",
]
BRACKETS = [
    "[CH2]=[CH][OH]", "[CH2:1]=[CH:2][OH:3]", "[C:1]([O:2])([OH:3])", "[CH3:1][C:2]([OH:3])([OH:4])[CH3:5]", "[CH2]=C(O)C",
    "C=C([OH])C", "C[C@](O)(O)CC", "C[C@@H](O)O", "[13CH2]=CO", "C=C[18OH]", "[2H]OC=C", "[H]OC=C", "C=CO[H]", "C=C[O]",
    "[CH2:1]=[CH:2][O:3][CH3:4]", "[OH:1][CH2:2][OH:3]",
]
FIXED = [
    "CCO", "CC(=O)C", "c1ccccc1O", "Oc1ccccc1", "CC(=O)O", "CC=O", "O=C1CCCCC1", "CO", "C", "[Na+]", "N", "OO", "c1ccncc1",
    "CC(C)(C)O", "OC(=O)C(O)=O", "O=C=O", "[C-]#[O+]", "Oc1ccc2ccccc2c1", "OC1=CC=CC1", "OC1=COC=C1", "c1ccoc1",
]
# many convertible groups in one input (mixtures, chains, one molecule): every group must be converted in ONE call
MANY_GROUPS = (
    [".".join(["C=CO"] * n) for n in (5, 6, 7, 8, 9, 12, 16)]
    + [".".join(["CC(O)(O)C"] * n) for n in (5, 7, 10)]
    + ["C" + "C(O)(O)C" * n for n in (3, 5, 7, 9)]
    + [".".join(["C=C(O)C"] * 4 + ["OCO"] * 4), ".".join(["C=CO", "CC(O)(O)C"] * 5), "OC=CCC(O)=CCC(O)=CCC(O)=CCC(O)=CCC(O)=CCC(O)=CCC(O)=C",
       ".".join(["OC(C)(C)OC"] * 8), ".".join(["C=CO"] * 7 + ["CCO", "O"])]
)
FAMILIES = [
    ("many-groups", MANY_GROUPS),
    ("enol", ENOLS), ("enolate/charged", ENOLATES), ("enol-ether", ENOL_ETHERS), ("metal-alkoxide", METAL_ALKOXIDES),
    ("gem-diol/triol", GEM_DIOLS), ("hemiketal-OH-first", HEMIKETALS_OH_FIRST), ("hemiketal-OR-first", HEMIKETALS_OR_FIRST),
    ("cyclic-hemiketal", CYCLIC_HEMIKETALS), ("mixture", MIXTURES), ("bracket-atoms", BRACKETS), ("no-group", FIXED),
]
SUBST = ["[H]", "[H]", "C", "CC", "c1ccccc1", "C(C)=O", "Cl", "F", "OC", "N(C)C", "C#N", "C(F)(F)F", "C=C", "C(=O)OC"]
OSUB = ["", "", "", "C", "CC", "C(C)=O", "[Na]", "[Si](C)(C)C", "c1ccccc1"]
PREFILTER = ("[#6]=[#6]-[#8]", "[#6](-[#8])-[#8]")


def random_orders(rng, smiles, k):
    """k other spellings of the same molecule: random atom renumbering written without canonicalisation, RDKit's own
    doRandom (its generator seeded from rng), and rooted spellings"""
    from rdkit import Chem, rdBase

    mol = Chem.MolFromSmiles(smiles)
    if mol is None or mol.GetNumAtoms() < 2:
        return []
    out = []
    n = mol.GetNumAtoms()
    for j in range(k):
        mode = j % 3
        if mode == 0:
            order = list(range(n))
            rng.shuffle(order)
            s = Chem.MolToSmiles(Chem.RenumberAtoms(mol, order), canonical=False)
        elif mode == 1:
            rdBase.SeedRandomNumberGenerator(rng.randrange(1, 2**31 - 1))
            s = Chem.MolToSmiles(mol, doRandom=True)
        else:
            s = Chem.MolToSmiles(mol, rootedAtAtom=rng.randrange(n), canonical=False)
        if Chem.MolFromSmiles(s) is not None:
            out.append(s)
    return out


def constructed(rng, n):
    out = []
    for _ in range(n):
        t = rng.randrange(4)
        r = [rng.choice(SUBST) for _ in range(3)]
        o = [rng.choice(OSUB) for _ in range(2)]
        if t == 0:
            out.append(("constructed-enol", "C(%s)(%s)=C(O%s)%s" % (r[0], r[1], o[0], r[2])))
        elif t == 1:
            out.append(("constructed-enol", "O%sC(%s)=C(%s)%s" % (o[0], r[0], r[1], r[2])))
        elif t == 2:
            out.append(("constructed-gem-dioxy", "C(%s)(%s)(O%s)O%s" % (r[0], r[1], o[0], o[1])))
        else:
            out.append(("constructed-gem-dioxy", "O%sC(%s)(O%s)%s" % (o[0], r[0], o[1], r[1])))
    return out


def inputs(ctx):
    """[(family, smiles)] of this run, every random choice from ctx.rng"""
    from rdkit import Chem

    quick = ctx.tier == "quick"
    rng = ctx.rng
    out = [("empty", "")]
    for fam, lst in FAMILIES:
        out += [(fam, s) for s in lst]
    k = 3 if quick else 9
    for fam, lst in FAMILIES[:-1]:
        pick = lst if not quick else rng.sample(lst, min(len(lst), 10))
        for s in pick:
            out += [(fam + "/random-order", t) for t in random_orders(rng, s, k)]
    for fam, s in constructed(rng, 120 if quick else 1200):
        if Chem.MolFromSmiles(s) is not None:
            out.append((fam, s))
            if rng.random() < 0.5:
                out += [(fam + "/random-order", t) for t in random_orders(rng, s, 1)]
    um = chem.unmapped_corpus_molecules()
    out += [("corpus", s) for s in (rng.sample(um, min(1100, len(um))) if quick else um)]
    mm = chem.corpus_molecules()
    out += [("corpus-atom-mapped", s) for s in rng.sample(mm, min(150 if quick else 2000, len(mm)))]
    seen, res = set(), []
    for fam, s in out:
        if s not in seen:
            seen.add(s)
            res.append((fam, s))
    return res


def pipeline_inputs(ctx, n_reactions):
    """merged compounds exactly as `impute_reaction` hands them to the standardizer (real Balancer run on corpus reactions)"""
    import synrbl.SynChemImputer.molecule_standardizer as ms
    import pipeline

    cls = ms.MoleculeStandardizer
    seen = []
    orig = cls.__call__

    def rec(self, smiles):
        seen.append(smiles)
        return orig(self, smiles)

    rxns = ctx.rng.sample(chem.corpus_reactions(), n_reactions)
    try:
        cls.__call__ = rec
        pipeline.traced_run(rxns, n_jobs=4)
    finally:
        cls.__call__ = orig
    return list(dict.fromkeys(seen))


# ------------------------------------------------------------------------------------------------ classification
def classify_raise(tr):
    """stable mechanism string (by cause) and call site for a traced run that raised"""
    from rdkit import Chem

    if tr["input"] == "":
        return M_EMPTY, CS_CALL
    out = real_outcome_json(tr)
    why = out.get("why", {})
    if why.get("kind") not in ("requery", "exception") or not tr["calls"]:
        return M_RAISE_OTHER, CS_CALL
    call = tr["calls"][-1]
    site = CS_HK if call["kind"] == "hemiketal" else CS_ENOL
    if out["step"] > 0:
        return M_STALE, CS_CALL
    mol = Chem.MolFromSmiles(call["smiles"])
    atoms = [mol.GetAtomWithIdx(i) for i in call["idx"] if i < mol.GetNumAtoms()]
    oxy = [a for a in atoms if a.GetSymbol() == "O"]
    if any(a.GetFormalCharge() != 0 for a in atoms):
        return (M_CHARGED_HK if call["kind"] == "hemiketal" else M_CHARGED_ENOL), site
    if any(a.GetNoImplicit() or a.GetNumExplicitHs() > 0 for a in atoms):
        return M_BRACKET, site
    if call["kind"] == "hemiketal":
        if len(oxy) == 2 and any(a.GetDegree() > 1 for a in oxy):
            return M_ALKOXY_HK, site
        return M_RAISE_OTHER, site
    if len(oxy) == 1:
        o = oxy[0]
        carbons = [a for a in atoms if a.GetIdx() != o.GetIdx()]
        bonded = [a.GetIdx() for a in carbons if mol.GetBondBetweenAtoms(a.GetIdx(), o.GetIdx()) is not None]
        adjacent = [a.GetIdx() for a in carbons if abs(a.GetIdx() - o.GetIdx()) == 1]
        if bonded != adjacent:
            return M_HEURISTIC, site
    return M_RAISE_OTHER, site


def classify_comp(tr):
    from rdkit import Chem

    good = [c for c in tr["calls"] if "result" in c and not is_error_text(c["result"])]
    for i, c in enumerate(good):
        if chem.true_comp(c["result"]) != chem.true_comp(c["smiles"]):
            if i > 0:
                return M_COMP, CS_CALL
            mol = Chem.MolFromSmiles(c["smiles"])
            site = CS_HK if c["kind"] == "hemiketal" else CS_ENOL
            grp = [mol.GetAtomWithIdx(j) for j in c["idx"] if j < mol.GetNumAtoms()]
            if any(n.GetSymbol() not in NONMETALS for a in grp for n in a.GetNeighbors()):
                return M_COMP_METAL, site
            if any(a.GetNoImplicit() or a.GetNumExplicitHs() > 0 for a in grp):
                return M_COMP_BRACKET, site
            return M_COMP_FRESH, (CS_HK if c["kind"] == "hemiketal" else CS_ENOL)
    return M_COMP + "-outside-rewrites", CS_CALL


# ------------------------------------------------------------------------------------------------ the checks
class Run:
    def __init__(self, ctx):
        from rdkit import Chem

        self.ctx = ctx
        self.reported = {}
        self.by_mech = {}
        self.pre = [Chem.MolFromSmarts(p) for p in PREFILTER]
        self.trace_queue = []  # (family, smiles, untraced outcome)
        self.graph_queue = []  # (smiles, graph)
        self.out_of_scope = 0
        self.fixed = is_fixed_code()

    # ---- violations
    def violate(self, mech, witness, detail, site, cap=6):
        k = self.reported.get(mech, 0)
        self.reported[mech] = k + 1
        self.ctx.count("violations/%s @ %s" % (mech, site.split(":")[-1]))
        self.by_mech.setdefault(mech, [])
        if k < cap:
            self.by_mech[mech].append(witness)
            self.ctx.violation(mech, witness, detail, site)

    def fg_bearing(self, s):
        from rdkit import Chem

        m = Chem.MolFromSmiles(s)
        return m is not None and any(m.HasSubstructMatch(p) for p in self.pre)

    # ---- the independent statement, on the real untraced code
    def statement(self, fam, s):
        from rdkit import Chem

        ctx = self.ctx
        ref = chem.true_comp(s)
        if ref is None:
            return
        kind, r = real_call(s)
        interesting = kind != "ok"
        trace = None
        if kind == "raises":
            trace = traced_call(s)
            mech, site = classify_raise(trace)
            self.violate(mech, s, "raises %s" % r[:200], site)
        else:
            if not isinstance(r, str) or is_error_text(r):
                interesting = True
                self.violate(M_ERRSTR, s, "returned %r" % (r,), CS_CALL)
            elif Chem.MolFromSmiles(r) is None:
                interesting = True
                self.violate(M_UNPARSABLE, s, "returned %r" % (r,), CS_CALL)
            else:
                if r != Chem.CanonSmiles(s):
                    interesting = True
                got = chem.true_comp(r)
                if got != ref:
                    trace = trace or traced_call(s)
                    mech, site = classify_comp(trace)
                    self.violate(mech, s, "returned %s: composition %s, input %s" % (r, got, ref), site)
                if r != s:  # f is a function of the string: f(r) with r == s is the call just made
                    k2, r2 = real_call(r)
                    if k2 != "ok":
                        self.violate(M_IDEM, s, "f(s) = %s, f(f(s)) raises %s" % (r, r2[:160]), CS_CALL)
                    elif r2 != r:
                        self.violate(M_IDEM, s, "f(s) = %s, f(f(s)) = %s" % (r, r2), CS_CALL)
        bearing = interesting or self.fg_bearing(s)
        ctx.case(("stmt", s), nontrivial=bearing)
        ctx.count("family/" + fam)
        ctx.count("statement/" + ("raises" if kind != "ok" else ("rewritten" if interesting else "unchanged")))
        if bearing:
            self.trace_queue.append((fam, s, (kind, r), trace))
        g = export_graph(s)
        if g is not None:
            self.graph_queue.append((s, g))

    # ---- the valence arithmetic on exported graphs
    def check_graphs(self):
        ctx = self.ctx
        items, self.graph_queue = self.graph_queue, []
        ans = ctx.driver([{"op": "stdGraph", "g": g} for _, g in items])
        for (s, g), a in zip(items, ans):
            ctx.traces += 1
            want = [x[4] for x in g["atoms"]]
            if a.get("hcounts") != want:
                bad = [i for i, (x, y) in enumerate(zip(a.get("hcounts", []), want)) if x != y]
                ctx.corr_break("Standardize/valence-arithmetic", {"smiles": s, "atoms": bad}, a.get("hcounts"), want)
            ref = chem.true_comp(s)
            if "comp" in a and comp_of_json(a["comp"]) != ref:
                ctx.corr_break("Standardize/composition", {"smiles": s}, a.get("comp"), ref)
            ctx.count("graphs/C-or-O-atoms-computed", sum(1 for m in a.get("modelled", []) if m))

    # ---- model vs real on traced runs
    def compare(self, s, tr, op, ans, untraced=None):
        ctx = self.ctx
        real = real_outcome_json(tr)
        if untraced is not None and untraced != tr["outcome"]:
            ctx.corr_break("Standardize/tracer-changes-behaviour", {"smiles": s}, list(tr["outcome"]), list(untraced))
        if "error" in ans:
            ctx.corr_break("Standardize/driver", {"smiles": s}, ans["error"], None)
            return
        good = [c for c in tr["calls"] if "result" in c and not is_error_text(c["result"])]
        steps = ans.get("steps", [])
        if ans["outcome"] == "unmodelled":
            self.out_of_scope += 1
            ctx.count("correspondence/out-of-model-scope")
            return
        ctx.traces += 1
        ctx.count("correspondence/" + ans["outcome"])
        same = ans["outcome"] == real["outcome"]
        if same and ans["outcome"] == "raises":
            same = ans.get("step") == real.get("step") and ans.get("why") == real.get("why")
        if not same:
            ctx.corr_break("Standardize/outcome", {"smiles": s, "groups": tr["groups"]},
                           {k: ans.get(k) for k in ("outcome", "step", "why")}, real)
            return
        # every rewrite: the model's edited graph is the real intermediate molecule, atom by atom
        k = 0
        for st in steps:
            rw = st["rewrite"]
            if rw["result"] != "smiles":
                continue
            c = good[k] if k < len(good) else None
            k += 1
            if c is None or st["kind"] != c["kind"] or st["idx"] != c["idx"]:
                ctx.corr_break("Standardize/loop", {"smiles": s}, [st["kind"], st["idx"]], c and [c["kind"], c["idx"]])
                return
            if not st.get("renumbered"):
                ctx.corr_break("Standardize/edit(%s)" % st["kind"], {"smiles": c["smiles"], "idx": c["idx"], "order": c["order"]},
                               rw["g"], export_graph(c["result"]))
            if not st.get("reparseSameComp"):
                ctx.corr_break("Standardize/law-reparse-keeps-composition", {"smiles": c["result"]}, None, None)
            conserved_real = chem.true_comp(c["result"]) == chem.true_comp(c["smiles"])
            if st.get("conserved") != conserved_real:
                ctx.corr_break("Standardize/edit-composition", {"smiles": c["smiles"], "idx": c["idx"]}, st.get("conserved"), conserved_real)
            if st.get("hyp"):
                ctx.count("theorem-instances/rewrite-hypotheses-hold")
                if not conserved_real or not st.get("conserved"):  # instance of C20_enol/hemiketal_conserves
                    ctx.corr_break("Standardize/C20_%s_conserves-instance" % st["kind"], {"smiles": c["smiles"], "idx": c["idx"]},
                                   "hypotheses hold", "composition changes: %s" % c["result"])
            else:
                ctx.count("theorem-instances/rewrite-hypotheses-fail")
        if k != len(good):
            ctx.corr_break("Standardize/loop", {"smiles": s}, "%d rewrites" % k, "%d rewrites" % len(good))
        if ans["outcome"] == "ok":
            if not ans.get("canonRenumbered") or not ans.get("canonSameComp"):
                ctx.corr_break("Standardize/law-canon", {"smiles": s}, ans.get("final"), op.get("canon"))
            got, ref = comp_of_json(ans["comp"]), chem.true_comp(real["smiles"])
            if got != ref:
                ctx.corr_break("Standardize/result-composition", {"smiles": s}, got, ref)
            same_real = chem.true_comp(real["smiles"]) == chem.true_comp(s)
            if ans.get("sameComp") != same_real:
                ctx.corr_break("Standardize/result-composition", {"smiles": s}, ans.get("sameComp"), same_real)
            if ans.get("allStepsHyp"):
                ctx.count("theorem-instances/C20_run_conserves_partial")
                if not same_real:
                    ctx.corr_break("Standardize/C20_run_conserves_partial-instance", {"smiles": s}, "hypotheses hold", real["smiles"])

    def correspondence(self):
        ctx = self.ctx
        if self.fixed:
            return correspondence_fixed(self)
        items, self.trace_queue = self.trace_queue, []
        ops, meta = [], []
        for fam, s, untraced, tr in items:
            tr = tr or traced_call(s)
            if tr["input"] == "":
                op = {"op": "standardize", "g": {"atoms": [], "bonds": []}, "groups": [], "reparsed": [], "orders": []}
            else:
                op = model_op(tr)
            if tr["outcome"][0] == "ok" and op.get("canonSmiles") != tr["outcome"][1]:
                ctx.corr_break("Standardize/canon-replica", {"smiles": s}, op.get("canonSmiles"), tr["outcome"][1])
            ops.append(op)
            meta.append((s, tr, untraced))
            for g in [op["g"]] + op["reparsed"]:
                self.graph_queue.append((None, g))
            ctx.count("traced/groups=%d" % min(3, sum(1 for n, _ in (tr["groups"] or []) if n in ("enol", "hemiketal"))))
        # the graphs of the intermediate molecules go through the valence check too (no SMILES at hand: graph only)
        inter, self.graph_queue = [g for s, g in self.graph_queue if s is None], [x for x in self.graph_queue if x[0] is not None]
        for g, a in zip(inter, ctx.driver([{"op": "stdGraph", "g": g} for g in inter])):
            if a.get("hcounts") != [x[4] for x in g["atoms"]]:
                ctx.corr_break("Standardize/valence-arithmetic", {"graph": g}, a.get("hcounts"), [x[4] for x in g["atoms"]])
        for (s, tr, untraced), op, ans in zip(meta, ops, ctx.driver(ops)):
            self.compare(s, tr, op, ans, untraced)


def witness_replay(ctx, run_):
    """the witnesses of Properties/C20.lean: recorded answers == live answers, Lean-proved outcome == real outcome"""
    W = ctx.driver([{"op": "stdWitnesses"}])[0]
    replay = []
    for w in W:
        ri = 0
        for k, smi in enumerate(w["smiles"]):
            tr = traced_call(smi)
            op = model_op(tr)
            ans = ctx.driver([op])[0]
            ctx.case(("witness", w["name"], k))
            live_groups = [op["g"], [[n, idx] for n, idx in tr["groups"]]]
            if k >= len(w["groups"]) or w["groups"][k] != live_groups or (k == 0 and w["input"] != op["g"]):
                ctx.corr_break("Standardize/witness-data(%s)" % w["name"], {"smiles": smi}, w["groups"][k:k + 1], live_groups)
            j = 0
            for st in ans.get("steps", []):
                if st["rewrite"]["result"] == "smiles":
                    if j >= len(op["reparsed"]):  # the model rewrites where the real code did not: reported below
                        break
                    pair = [st["rewrite"]["g"], op["reparsed"][j]]
                    if ri >= len(w["reparsed"]) or w["reparsed"][ri] != pair or w["orders"][ri] != op["orders"][j]:
                        ctx.corr_break("Standardize/witness-data(%s)" % w["name"], {"smiles": smi, "rewrite": j}, w["reparsed"][ri:ri + 1], pair)
                    ri += 1
                    j += 1
            real = real_outcome_json(tr)
            model = w["runs"][k] if k < len(w["runs"]) else {}
            if real["outcome"] == "ok":
                last = op["reparsed"][-1] if op["reparsed"] else op["g"]
                if k >= len(w["canon"]) or w["canon"][k] != [last, op["canon"]]:
                    ctx.corr_break("Standardize/witness-data(%s)" % w["name"], {"smiles": smi}, w["canon"][k:k + 1], [last, op["canon"]])
                agree = model.get("outcome") == "ok" and model.get("final") == op["canon"]
            else:
                agree = model.get("outcome") == "raises" and model.get("step") == real.get("step") and model.get("why") == real.get("why")
            if not agree:
                ctx.corr_break("Standardize/witness-replay(%s)" % w["name"], {"smiles": smi},
                               {x: model.get(x) for x in ("outcome", "step", "why")}, real)
            untraced = real_call(smi)
            replay.append({"witness": w["name"], "smiles": smi, "real": list(untraced)[:2], "model": model.get("outcome"),
                           "model_why": model.get("why"), "agree": agree,
                           "composition_kept": (chem.true_comp(untraced[1]) == chem.true_comp(smi)) if untraced[0] == "ok" else None})
    ctx.extra["witness_replay"] = replay
    for r in replay[:3]:
        ctx.sample(r)


def search(ctx):
    """deeper hunt on the real code after a proof obligation / the correspondence broke: 10x the constructed inputs,
    more spellings of every special molecule, 3000 corpus molecules"""
    from rdkit import Chem

    run_ = Run(ctx)
    cand = []
    for fam, lst in FAMILIES:
        for s in lst:
            cand.append((fam, s))
            cand += [(fam + "/random-order", t) for t in random_orders(ctx.rng, s, 6)]
    cand += [c for c in constructed(ctx.rng, 1200) if Chem.MolFromSmiles(c[1]) is not None]
    um = chem.unmapped_corpus_molecules()
    cand += [("corpus", s) for s in ctx.rng.sample(um, min(3000, len(um)))]
    known = {k["mechanism"] for k in ctx.load_known()}
    for fam, s in cand:
        run_.statement(fam, s)
        if any(v["mechanism"] not in known for v in ctx.violations):
            break


def pin_hash_seed(ctx):
    """fgutils' answer depends on Python's string-hash randomisation (an enol that is also a primary/secondary alcohol,
    e.g. C=C(O)CC, is reported as either, per process): pin PYTHONHASHSEED from the run's seed so that a run is a function
    of (tier, seed) — and re-execute once if the interpreter was started with another value"""
    want = str(ctx.seed % 4294967295)
    if os.environ.get("PYTHONHASHSEED") != want:
        os.environ["PYTHONHASHSEED"] = want
        sys.stdout.flush()
        os.execv(sys.executable, [sys.executable] + sys.argv)


def run(ctx):
    pin_hash_seed(ctx)
    quick = ctx.tier == "quick"
    ctx.rule = (
        "inputs: the empty SMILES; %d hand-written molecules in 11 families (enols, enolates/charged groups, enol ethers, metal "
        "alkoxides, gem-diols/triols/ortho acids, hemiketals with the OH first / the OR first, cyclic hemiketals, mixtures, "
        "bracket/atom-mapped/isotope atoms, molecules without a group); %d other spellings of each (random renumbering written "
        "non-canonically, RDKit doRandom, rooted); %d constructed enols / gem-dioxy carbons with random substituents; corpus "
        "molecules (atom maps removed: %s; atom-mapped: %d)%s.  Every input goes through the independent statement on the real "
        "untraced code; every input that is rewritten, raises or contains C=C-O / O-C-O is also traced and compared with the "
        "model; non-trivial = such an input, distinct by SMILES string"
        % (sum(len(l) for _, l in FAMILIES), 3 if quick else 9, 120 if quick else 1200,
           "seeded sample of 1100" if quick else "all 10 818", 150 if quick else 2000,
           "" if quick else "; merged compounds captured from a real Balancer run on 300 corpus reactions")
    )
    ctx.assumptions = [
        "fgutils FGQuery.get (the group list of the input molecule) is a recorded oracle answer; the model never re-derives it",
        "RDKit: SMILES parsing, sanitisation of atoms the rewrite does not edit, MolToSmiles/MolFromSmiles round trip (law "
        "`renumberedB`: same symbols, charges, hydrogen counts and bonds under the recorded atom output order, checked on "
        "every intermediate molecule), CanonSmiles; AddHs/atomic numbers as the reference composition (chem.true_comp)",
        "valence arithmetic for C and O (H = explicitH + (valence - (sum of Kekule bond orders + explicitH)), valence 4/2 "
        "shifted by the charge) equals GetTotalNumHs(): checked on every C/O atom of every exported graph",
        "rewrites that edit an atom other than C/O or an atom with an aromatic/dative bond are outside the model "
        "(counted as correspondence/out-of-model-scope; the statement on the real code still covers them)",
        "no data table is generated for this property: the constants of the module (group names, SetNumExplicitHs(0/2), bond "
        "orders, the |i-o|==1 test, the three error messages) are tied to the model by the correspondence only",
    ]
    ctx.trusted.append("harness/props/C20.py:traced_call (replaces the name `Chem` inside molecule_standardizer by a recording proxy, "
                       "wraps the two static rewrites; its result is compared with the untraced call on every traced input)")
    ctx.gen_tables(needs=[])
    built = ctx.build([MODULE])
    drv = ctx.build_driver()
    if built:
        ctx.audit(MODULE)
    if not drv:
        return finish(ctx)
    run_ = Run(ctx)
    ctx.extra["code_version"] = "patched __call__ (Fix A): compared with runF" if run_.fixed else "shipped __call__: compared with run"
    if run_.fixed:
        ctx.notes.append("the repository contains the patched __call__ (_rewrite_once/_is_valid_rewrite): the correspondence runs "
                         "against the model runF; the witness theorems of Properties/C20.lean describe the loop before the patch and "
                         "are not replayed as model-vs-code (the witness molecules still go through the statement)")
        for w in ctx.driver([{"op": "stdWitnesses"}])[0]:
            for smi in w["smiles"][:1]:
                ctx.extra.setdefault("witness_replay", []).append({"witness": w["name"], "smiles": smi, "real": list(real_call(smi))})
    else:
        witness_replay(ctx, run_)
    todo = inputs(ctx)
    if not quick:
        try:
            merged = pipeline_inputs(ctx, 300)
            todo += [("pipeline-merged-compound", s) for s in merged]
            ctx.extra["pipeline_merged_compounds"] = len(merged)
        except Exception as e:  # noqa: BLE001
            ctx.notes.append("pipeline capture skipped: %s: %s" % (type(e).__name__, e))
    for i, (fam, s) in enumerate(todo):
        run_.statement(fam, s)
        if len(run_.trace_queue) >= 150:
            run_.correspondence()
        if len(run_.graph_queue) >= 600:
            run_.check_graphs()
    run_.correspondence()
    run_.check_graphs()
    ctx.extra["violations_by_mechanism"] = dict(run_.reported)
    ctx.extra["first_witnesses_by_mechanism"] = run_.by_mech
    ctx.extra["out_of_model_scope"] = run_.out_of_scope
    ctx.sample({"inputs": len(todo), "violations_by_mechanism": dict(run_.reported)})
    return finish(ctx)


def finish(ctx):
    # the known findings fill ctx.violations, so Ctx.finish would skip the search: run it here when something broke
    if ctx.breaks:
        known = {k["mechanism"] for k in ctx.load_known()}
        if all(v["mechanism"] in known for v in ctx.violations):
            try:
                search(ctx)
            except Exception as e:  # noqa: BLE001
                ctx.notes.append("search crashed: %s" % e)
    return ctx.finish(None)


# ------------------------------------------------------------------------------------------------ the patched __call__
def fixed_pass1(tr):
    return [{"op": "stdRewrite", "g": export_graph(c["smiles"]), "kind": c["kind"], "idx": c["idx"]} for c in tr["calls"]]


def fixed_op(tr, edits):
    """driver op `standardizeFixed` for a trace of the patched code; `edits` = the model's answer for every rewrite call"""
    from rdkit import Chem

    s = tr["input"]
    groups, seen = [], set()
    for q, gl in tr["query_log"]:
        if q not in seen:
            seen.add(q)
            groups.append([export_graph(q), [[n, idx] for n, idx in gl]])
    canon = [[export_graph(s), export_graph(Chem.CanonSmiles(s))]]
    for q in seen:
        canon.append([export_graph(q), export_graph(Chem.CanonSmiles(q))])
    differs, orders = [], []
    for c, a in zip(tr["calls"], edits):
        if a.get("result") == "smiles" and "result" in c and not is_error_text(c["result"]):
            old, new = Chem.MolFromSmiles(c["smiles"]), Chem.MolFromSmiles(c["result"])
            canon.append([a["g"], export_graph(Chem.CanonSmiles(c["result"]))])
            orders.append([a["g"], c["order"] or []])
            differs.append([a["g"], export_graph(c["smiles"]), 1 if Chem.MolToSmiles(new) != Chem.MolToSmiles(old) else 0])
    return {"op": "standardizeFixed", "g": export_graph(s) if s else {"atoms": [], "bonds": []}, "groups": groups, "canon": canon,
            "differs": differs, "orders": orders}


def compare_fixed(ctx, run_, s, tr, edits, ans, untraced):
    from rdkit import Chem
    from rdkit.Chem.rdMolDescriptors import CalcMolFormula

    if untraced is not None and untraced != tr["outcome"]:
        ctx.corr_break("StandardizeFixed/tracer-changes-behaviour", {"smiles": s}, list(tr["outcome"]), list(untraced))
    if "error" in ans:
        ctx.corr_break("StandardizeFixed/driver", {"smiles": s}, ans["error"], None)
        return
    if ans["outcome"] == "unmodelled":
        run_.out_of_scope += 1
        ctx.count("correspondence/out-of-model-scope")
        return
    ctx.traces += 1
    ctx.count("correspondence/" + ans["outcome"])
    kind, val = tr["outcome"]
    if (ans["outcome"] == "ok") != (kind == "ok"):
        ctx.corr_break("StandardizeFixed/outcome", {"smiles": s}, ans["outcome"], [kind, val[:160]])
        return
    model_att = [a for rnd in ans.get("rounds", []) for a in rnd]
    real_att = list(zip(tr["calls"], tr["valid"]))
    if len(model_att) != len(real_att) or len(tr["calls"]) != len(tr["valid"]):
        ctx.corr_break("StandardizeFixed/loop", {"smiles": s}, [[a["kind"], a["idx"], a["accepted"]] for a in model_att],
                       [[c["kind"], c["idx"], v[2]] for c, v in real_att])
        return
    for a, (c, v) in zip(model_att, real_att):
        real_is_smiles = "result" in c and not is_error_text(c["result"])
        ok = a["kind"] == c["kind"] and a["idx"] == c["idx"] and a["accepted"] == v[2] and (a["rewrite"]["result"] == "smiles") == real_is_smiles
        if ok and not real_is_smiles and a["rewrite"]["result"] == "errorString":
            ok = a["rewrite"]["err"] == parse_error_text(c["result"])
        if ok and a["accepted"] and a.get("renumbered") is not True:
            ok = False
        if ok and real_is_smiles and "sameFormula" in a:
            ok = a["sameFormula"] == (CalcMolFormula(Chem.MolFromSmiles(c["result"])) == CalcMolFormula(Chem.MolFromSmiles(c["smiles"])))
        if ok and a.get("hyp") and real_is_smiles:
            ctx.count("theorem-instances/rewrite-hypotheses-hold")
            ok = chem.true_comp(c["result"]) == chem.true_comp(c["smiles"])
        if not ok:
            ctx.corr_break("StandardizeFixed/attempt", {"smiles": c["smiles"], "kind": c["kind"], "idx": c["idx"]},
                           {k: a.get(k) for k in ("accepted", "renumbered", "sameFormula", "hyp")} | {"rewrite": a["rewrite"].get("result"), "err": a["rewrite"].get("err")},
                           {"result": c.get("result"), "valid": v[2]})
            return
    if kind == "ok":
        if ans.get("final") != export_graph(val) or ans.get("exhausted") or comp_of_json(ans["comp"]) != chem.true_comp(val):
            ctx.corr_break("StandardizeFixed/result", {"smiles": s}, {"final": ans.get("final"), "exhausted": ans.get("exhausted")}, val)
        ctx.count("theorem-instances/C20_fixA_conserves")
        if not ans.get("sameComp") or chem.true_comp(val) != chem.true_comp(s):
            ctx.corr_break("StandardizeFixed/C20_fixA_conserves-instance", {"smiles": s}, ans.get("sameComp"), val)


def correspondence_fixed(run_):
    ctx = run_.ctx
    items, run_.trace_queue = run_.trace_queue, []
    traces = []
    for fam, s, untraced, tr in items:
        tr = traced_call(s)
        traces.append((s, tr, untraced))
    p1 = [op for _, tr, _ in traces for op in fixed_pass1(tr)]
    a1 = iter(ctx.driver(p1))
    ops, edits_all = [], []
    for s, tr, _ in traces:
        edits = [next(a1) for _ in tr["calls"]]
        edits_all.append(edits)
        ops.append(fixed_op(tr, edits))
        ctx.count("traced/rewrite-calls=%d" % min(3, len(tr["calls"])))
    for (s, tr, untraced), edits, ans in zip(traces, edits_all, ctx.driver(ops)):
        compare_fixed(ctx, run_, s, tr, edits, ans, untraced)
