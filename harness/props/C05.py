"""C05 — one result row per input row, in input order, for every input form."""
import csv
import itertools
import json
import math
import os
import shutil
import tempfile

import chem
import pipeline
from _rowmachine import prepare
from core import quiet

quiet()
MODULE = "SynRBLModel.Properties.C05"
VALID = ["C>>C", "CC>>CC", "CCO>>CC=O", "[CH4:1]>>[CH4:1]", "CC(=O)C>>CC(O)C", "[Na+].[Cl-]>>[Na+].[Cl-]", "CCCl>>CC",
         # rows that reach the curation stage (reductions / oxidations of several functional groups): a failure there must not
         # take the other rows of the batch with it
         "CC#N>>CCN", "CC(=O)OC>>CCO.CO", "CSC>>CS(C)=O", "CC=NC>>CCNC", "CC(=O)O>>CCO"]
MALFORMED = ["xx>>C", "C>>xx(", "CC", "A>B>C", "C>>C>>C", ">>", "", "C>C", None, float("nan"), 12,
             # syntactically fine but rejected by sanitisation (valence, kekulisation), on either side
             "CC(C)(C)(C)(C)C>>CCO", "CCO>>CC(C)(C)(C)(C)C", "c1cccc1>>CCO", "C>>c1cccc1", "CN(C)(C)(C)C>>C", "O=C=1>>C"]


def describe(x):
    return "nan" if isinstance(x, float) and math.isnan(x) else repr(x)


def expected_input(raw):
    from synrbl.SynUtils.chem_utils import remove_atom_mapping

    from rdkit import Chem

    if not isinstance(raw, str):
        return raw, False
    s = remove_atom_mapping(raw)
    parts = s.split(">>")
    ok = len(parts) == 2 and all(Chem.MolFromSmiles(p) is not None for p in parts)
    return (s if ok else raw), ok


def statement(ctx, rows_in, out, err, form):
    """one row per input row, in order, each describing its input"""
    key = (form, json.dumps([describe(x) for x in rows_in]))
    nontrivial = any(not expected_input(x)[1] for x in rows_in)
    ctx.case(key, nontrivial=nontrivial)
    ctx.count("form:" + form)
    if err is not None or out is None or len(out) != len(rows_in):
        ctx.violation("row-count-differs-from-input", {"form": form, "rows": [describe(x) for x in rows_in]},
                      "error=%s returned=%s rows" % (err, None if out is None else len(out)), "synrbl/balancing.py:rebalance")
        return False
    for i, (raw, r) in enumerate(zip(rows_in, out)):
        want, ok = expected_input(raw)
        got = r.get("input_reaction")
        same = (got == want) or (want is None and got is None) or (
            isinstance(raw, float) and isinstance(got, float) and math.isnan(got))
        if not same:
            ctx.violation("row-does-not-describe-its-input", {"form": form, "rows": [describe(x) for x in rows_in], "position": i},
                          "input_reaction=%r expected %r" % (got, want), "synrbl/balancing.py:__run_pipeline")
            return False
        if not ok and r.get("solved"):
            ctx.violation("malformed-row-solved", {"form": form, "rows": [describe(x) for x in rows_in], "position": i},
                          str(r), "synrbl/balancing.py")
            return False
    return True


def plain_list_form(ctx, rows, batch_size):
    """`output_dict=False` (the default of the public API): a list with one entry per input row, entry i being the
    `reaction` value of row i of the dictionary form"""
    import copy

    from synrbl import Balancer

    data = [{"reaction": x, "tag": i} for i, x in enumerate(rows)]
    try:
        full = Balancer(n_jobs=1, batch_size=batch_size).rebalance(copy.deepcopy(data), output_dict=True)
        plain = Balancer(n_jobs=1, batch_size=batch_size).rebalance(copy.deepcopy(data))
        err = None
    except Exception as e:
        full, plain, err = None, None, "%s: %s" % (type(e).__name__, e)
    ctx.case(("plain-list", json.dumps([describe(x) for x in rows]), batch_size), nontrivial=True)
    ctx.count("form:plain-list-return")
    wit = {"form": "output_dict=False", "rows": [describe(x) for x in rows], "batch_size": batch_size}
    if err is not None or plain is None or len(plain) != len(rows):
        ctx.violation("row-count-differs-from-input", wit, "error=%s returned=%s entries" % (err, None if plain is None else len(plain)),
                      "synrbl/balancing.py:rebalance")
        return False
    for i, (p, r) in enumerate(zip(plain, full)):
        want = r.get("reaction")
        same = p == want or (isinstance(p, float) and isinstance(want, float) and math.isnan(p) and math.isnan(want))
        if not same:
            ctx.violation("row-does-not-describe-its-input", dict(wit, position=i), "entry %r, the dictionary form has %r" % (p, want),
                          "synrbl/balancing.py:rebalance")
            return False
    return True


def run_list(rows, batch_size, as_dict, ids=None, cols=None):
    import copy

    from synrbl import Balancer

    rc, ic = cols or ("reaction", "id")
    b = Balancer(n_jobs=1, batch_size=batch_size, reaction_col=rc, id_col=ic)
    data = [{rc: x, "tag": i} for i, x in enumerate(rows)] if as_dict else copy.deepcopy(rows)
    if ids is not None:  # rows that carry their own value in the column the tool uses as id
        for d, v in zip(data, ids):
            d[ic] = v
    try:
        return b.rebalance(data, output_dict=True), None
    except Exception as e:
        return None, "%s: %s" % (type(e).__name__, e)


def cli_case(ctx, rows, batch_size, tmp):
    """the command-line path: CSV in, CSV out with pass-through columns next to the reaction they came from"""
    import pandas as pd

    from synrbl.SynCmd.cmd_run import impute

    src = os.path.join(tmp, "in.csv")
    dst = os.path.join(tmp, "out.csv")
    # pass-through columns: an ordinary one and columns named like the pipeline's own working columns (the caller's values,
    # not the pipeline's, must come back next to the reaction they were given with)
    extra = {
        "tag": lambda i: "tag%d" % i,
        "id": lambda i: str(1001 + 3 * i),
        "products": lambda i: "given-products-%d" % i,
        "reactants": lambda i: "given-reactants-%d" % i,
        "Unnamed: 0": lambda i: "u%d" % i,
    }
    cols = ["tag"] + sorted(set(extra) - {"tag"})
    with open(src, "w", newline="") as f:
        w = csv.writer(f)
        w.writerow(["reaction"] + cols)
        for i, x in enumerate(rows):
            w.writerow([x] + [extra[c](i) for c in cols])
    err = None
    seen = {}
    from synrbl import Balancer

    orig_rebalance = Balancer.rebalance

    def spy(self_, reactions, *a, **k):
        import copy

        seen["ins"] = copy.deepcopy(reactions)
        res = orig_rebalance(self_, reactions, *a, **k)
        seen["outs"] = copy.deepcopy(res)
        return res

    try:
        Balancer.rebalance = spy
        try:
            impute(src, dst, "reaction", list(cols), 0, n_jobs=1, batch_size=batch_size)
        finally:
            Balancer.rebalance = orig_rebalance
        df = pd.read_csv(dst, keep_default_na=False, dtype=str)
    except SystemExit as e:
        err = "SystemExit %s" % e
    except Exception as e:
        err = "%s: %s" % (type(e).__name__, e)
    ctx.case(("cli", json.dumps(rows), batch_size, tuple(cols)), nontrivial=True)
    ctx.count("form:cli")
    for c in cols:
        ctx.count("cli-passthrough-column:" + c)
    if err is not None:
        ctx.violation("cli-run-failed", {"rows": rows, "batch_size": batch_size, "out_columns": cols}, err, "synrbl/SynCmd/cmd_run.py:impute")
        return
    if len(df) != len(rows):
        ctx.violation("row-count-differs-from-input", {"form": "cli", "rows": rows}, "csv has %d rows" % len(df),
                      "synrbl/SynCmd/cmd_run.py:impute")
        return
    # the copy loop against the Lean model (`Cli.passThrough`): the rows handed to rebalance, the rows it returned, and the
    # pass-through columns of the CSV that was written (values as the strings the CSV holds)
    def as_rec(d):
        return [[str(k), "" if (v is None or (isinstance(v, float) and math.isnan(v))) else str(v)] for k, v in d.items()]

    if isinstance(seen.get("ins"), list) and isinstance(seen.get("outs"), list) and all(isinstance(r, dict) for r in seen["ins"] + seen["outs"]):
        ans = ctx.driver([{"op": "passThrough", "cols": list(cols), "ins": [as_rec(r) for r in seen["ins"]], "outs": [as_rec(r) for r in seen["outs"]]}])[0]
        ctx.traces += 1
        model_rows = [dict(r) for r in ans.get("rows", [])]
        real_rows = [{c: (df[c][i] if c in df.columns else "<column missing>") for c in cols} for i in range(len(df))]
        if [{c: r.get(c, "<column missing>") for c in cols} for r in model_rows] != real_rows:
            ctx.corr_break("Cli.passThrough", {"rows": rows, "out_columns": cols, "batch_size": batch_size},
                           [{c: r.get(c) for c in cols} for r in model_rows], real_rows)
    else:
        ctx.corr_break("Cli.passThrough", {"rows": rows}, "rebalance is called once with the CSV records", "call not observed")
    for i, x in enumerate(rows):
        want, ok = expected_input(x)
        got = {c: (df[c][i] if c in df.columns else "<column missing>") for c in cols}
        exp = {c: extra[c](i) for c in cols}
        if got != exp or str(df["input_reaction"][i]) != str(want):
            ctx.violation("cli-passthrough-column-shifted", {"rows": rows, "batch_size": batch_size, "position": i, "out_columns": cols},
                          "passthrough=%s input_reaction=%s expected %s / %s" % (got, df["input_reaction"][i], exp, want),
                          "synrbl/SynCmd/cmd_run.py:impute")
            return


def dataset_case(ctx, rows, batch_size, tmp):
    """CSV / JSON files as Dataset sources of Balancer.rebalance"""
    from synrbl import Balancer
    from synrbl.SynUtils.batching import Dataset

    srows = [x if isinstance(x, str) else "" for x in rows]
    cpath, jpath = os.path.join(tmp, "ds.csv"), os.path.join(tmp, "ds.json")
    with open(cpath, "w", newline="") as f:
        w = csv.writer(f)
        w.writerow(["reaction", "tag"])
        for i, x in enumerate(srows):
            w.writerow([x, "t%d" % i])
    with open(jpath, "w") as f:
        json.dump([{"reaction": x, "tag": "t%d" % i} for i, x in enumerate(srows)], f)
    for form, path in (("csv-dataset", cpath), ("json-dataset", jpath)):
        try:
            out, err = Balancer(n_jobs=1, batch_size=batch_size).rebalance(Dataset(path), output_dict=True), None
        except Exception as e:
            out, err = None, "%s: %s" % (type(e).__name__, e)
        statement(ctx, srows, out, err, form)


def ragged_csv_case(ctx, tmp):
    """a CSV source whose records do not all have as many fields as the header (a missing trailing free-text field, an
    unquoted comma in a comment): every record is still one input row"""
    from synrbl import Balancer
    from synrbl.SynUtils.batching import Dataset

    lines = [
        ("C>>C", ["t0", "plain"]),
        ("CCO>>CC=O", ["t1"]),  # trailing field missing
        ("CC>>CC", ["t2", "a", "comment with, a comma"]),  # one field too many
        ("xx>>C", []),  # only the reaction
        (None, []),  # a completely empty record: still one input row (a row without a reaction)
        ("CC(=O)C>>CC(O)C", ["t4", "last"]),
        (None, []),
    ]
    path = os.path.join(tmp, "ragged.csv")
    with open(path, "w", newline="") as f:
        f.write("reaction,tag,comment\n")
        for rx, rest in lines:
            f.write(("" if rx is None else ",".join([rx] + rest)) + "\n")
    rows = [rx for rx, _ in lines]
    for bs in (None, 2):
        try:
            out, err = Balancer(n_jobs=1, batch_size=bs).rebalance(Dataset(path), output_dict=True), None
        except Exception as e:
            out, err = None, "%s: %s" % (type(e).__name__, e)
        statement(ctx, rows, out, err, "csv-dataset-ragged")


def sequences(ctx, maxlen, per_len):
    rng = ctx.rng
    strs = [m for m in MALFORMED if isinstance(m, str)]
    out = []
    for n in range(1, maxlen + 1):
        for _ in range(per_len):
            rows = [rng.choice(VALID) for _ in range(n)]
            k = rng.randint(1, min(2, n))
            for pos in rng.sample(range(n), k):
                rows[pos] = rng.choice(MALFORMED)
            out.append(rows)
    # two rejected rows of different kinds next to each other, in both orders, between valid rows (the rejected rows are taken
    # out of the batch and put back: their relative order and the rows behind them must not move)
    kinds = ["xx>>C", "CC", None, float("nan"), 12, "CC(C)(C)(C)(C)C>>CCO", ""]
    for a, b in itertools.permutations(kinds, 2):
        out.append(["C>>C", a, b, "CCO>>CC=O", "CC>>CC"])
    for _ in range(per_len):
        n = rng.randint(4, max(4, maxlen + 2))
        rows = [rng.choice(VALID) for _ in range(n)]
        for pos in rng.sample(range(n), rng.randint(2, n - 1)):
            rows[pos] = rng.choice(MALFORMED)
        out.append(rows)
    # every single position of every malformed kind in a 3-row list
    for m in MALFORMED:
        for pos in range(3):
            rows = ["C>>C", "CC>>CC", "CCO>>CC=O"]
            rows[pos] = m
            out.append(rows)
    return out


def explore(ctx, seqs, stop_on_first=False):
    for rows in seqs:
        n = len(rows)
        for bs in [None] + sorted(set([1, 2, n, n + 1])):
            if all(isinstance(x, str) for x in rows):
                out, err = run_list(rows, bs, as_dict=False)
                if not statement(ctx, rows, out, err, "list") and stop_on_first:
                    return
            out, err = run_list(rows, bs, as_dict=True)
            if not statement(ctx, rows, out, err, "dict") and stop_on_first:
                return
        if not plain_list_form(ctx, rows, ctx.rng.choice([None, 2])) and stop_on_first:
            return
        # caller-chosen column names (a configuration), with and without the caller's own ids in the id column
        bs = ctx.rng.choice([None, 1, 2, n])
        out, err = run_list(rows, bs, as_dict=True, cols=("rxn", "rid"))
        if not statement(ctx, rows, out, err, "dict+columns") and stop_on_first:
            return
        out, err = run_list(rows, bs, as_dict=True, ids=[50 - i for i in range(n)], cols=("rxn", "rid"))
        if not statement(ctx, rows, out, err, "dict+columns+id") and stop_on_first:
            return
        # the caller's own `id` column (1-based, reversed, arbitrary strings): it must not steer where results are written
        idforms = [[i + 1 for i in range(n)], list(range(n))[::-1], ["r%d" % (7 * i) for i in range(n)]]
        if ctx.tier == "quick":
            idforms = [ctx.rng.choice(idforms)] if n <= 3 else []
        for ids in idforms:
            out, err = run_list(rows, ctx.rng.choice([None, 2]), as_dict=True, ids=ids)
            if not statement(ctx, rows, out, err, "dict+id") and stop_on_first:
                return
            if out is not None and err is None:
                alone = [run_list([x], None, as_dict=True)[0] for x in rows]
                for i, (a, o) in enumerate(zip(alone, out)):
                    if a and (a[0].get("reaction"), a[0].get("solved")) != (o.get("reaction"), o.get("solved")):
                        ctx.violation("row-result-depends-on-caller-id-column", {"rows": [describe(x) for x in rows], "ids": ids, "position": i},
                                      "alone: %s / with ids: %s" % (a[0].get("reaction"), o.get("reaction")), "synrbl/rule_based.py id write-back")
                        if stop_on_first:
                            return
                        break


def search(ctx):
    explore(ctx, sequences(ctx, 5, 12), stop_on_first=True)


def run(ctx):
    built, drv = prepare(
        ctx,
        MODULE,
        "input lists of 1-4 (quick) / 1-6 (thorough) cheap valid reactions with 1-2 rows replaced by a malformed kind (unparsable "
        "SMILES, no '>>', 'A>B>C', two '>>', empty sides/string, single '>', None, NaN, a number) at seeded positions plus every "
        "kind at every position of a 3-row list, every ordered pair of 7 rejected kinds side by side between valid rows, and lists "
        "with 2..n-1 rejected rows of mixed kinds; each list run as list of SMILES and as list of dicts under batch sizes "
        "{None,1,2,n,n+1}, and as dicts under caller-chosen column names (reaction_col='rxn', id_col='rid', with and without own ids); CSV through the command-line entry point with pass-through columns (an ordinary one and columns "
        "named like the pipeline's working columns: id, products, reactants, 'Unnamed: 0'); the DataLoader slicing is "
        "compared with the Lean `chunks` model (non-trivial = list with a malformed row; distinct by form and list)",
        ["a bare None/number inside a *list of SMILES* is rejected by the dataset constructor (type error), so those kinds are "
         "only fed in dictionary / CSV form"],
    )
    if drv:
        quick = ctx.tier == "quick"
        seqs = sequences(ctx, 4 if quick else 6, 3 if quick else 25)
        explore(ctx, seqs)
        # DataLoader vs the Lean model
        from synrbl.SynUtils.batching import DataLoader, Dataset

        ops, real = [], []
        for n in range(0, 9):
            for bs in range(1, 11):
                data = list(range(n))
                real.append([b for b in DataLoader(Dataset(list(data)), batch_size=bs)])
                ops.append({"op": "chunks", "n": bs, "xs": data})
        for o, r, m in zip(ops, real, ctx.driver(ops)):
            ctx.case(("chunks", o["n"], len(o["xs"])), nontrivial=len(o["xs"]) > o["n"])
            if m.get("chunks") != r:
                ctx.corr_break("Batching.chunks", o, m, r)
        ctx.traces += len(ops)
        tmp = tempfile.mkdtemp(prefix="synrbl_c05_")
        try:
            dataset_case(ctx, ["C>>C", "xx>>C", "CC>>CC", "", "CCO>>CC=O"], 2, tmp)
            dataset_case(ctx, ["CC(C)(C)(C)(C)C>>CCO", "C>>C", "A>B>C"], None, tmp)
            ragged_csv_case(ctx, tmp)
            cli_case(ctx, ["C>>C", "xx>>C", "CC>>CC", "CCO>>CC=O"], None, tmp)
            cli_case(ctx, ["C>>C", "CC>>CC", "", "CCO>>CC=O", "A>B>C"], 2, tmp)
            if not quick:
                for rows in seqs[:40]:
                    if isinstance(rows[0], str) and expected_input(rows[0])[1]:
                        cli_case(ctx, [x if isinstance(x, str) else "" for x in rows], ctx.rng.choice([None, 1, 2]), tmp)
        finally:
            shutil.rmtree(tmp, ignore_errors=True)
        ctx.sample({"rows": [describe(x) for x in seqs[0]]})
        ctx.sample({"rows": [describe(x) for x in seqs[-1]]})
    return ctx.finish(search)
