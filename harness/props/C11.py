"""C11 — MCS-stage timeouts and failures are contained to the affected reaction."""
import json

import chem
import faults
import pipeline
from _rowmachine import prepare

MODULE = "SynRBLModel.Properties.C11"
KEYS = ("reaction", "solved", "solved_by", "issue", "rules", "confidence", "input_reaction")


def mcs_inputs(ctx, n):
    mix = pipeline.workload_mix(ctx)
    rows = [(inp, r) for inp, r in zip(mix["inputs"], mix["out"] or []) if r.get("solved_by") == "mcs-based" and pipeline.is_small(inp, 30)]
    rng = ctx.rng
    rng.shuffle(rows)
    picked = [inp for inp, _ in rows[:n]]
    # one rule-based and one balanced row ride along: they must never be affected
    return picked + ["CCO>>CC=O", "C>>C"]


def patterns(ctx, nrows, count, max_timeouts=1):
    rng = ctx.rng
    out = []
    ids = [str(i) for i in range(nrows)]
    # hand-placed: all three conditions of a row raise; one condition times out; fragment analysis raises / times out
    out.append(({(ids[0], c): "raise" for c in range(3)}, {}))
    out.append(({(ids[0], 0): "timeout"}, {}))
    out.append(({}, {ids[0]: "raise"}))
    out.append(({}, {ids[min(1, nrows - 1)]: "timeout"}))
    # exceptions without a message (str(e) == ""), and failures inside the merge step of the imputation
    out.append(({(ids[0], c): "raise-empty" for c in range(3)}, {ids[min(1, nrows - 1)]: "raise-empty"}))
    out.append(({}, {}, {ids[0]: "raise-empty", ids[min(2, nrows - 1)]: "raise"}))
    out.append(({}, {ids[0]: "timeout-long"}))
    for _ in range(count):
        s, g, nt = {}, {}, 0
        for rid in rng.sample(ids, rng.randint(1, min(3, nrows))):
            if rng.random() < 0.7:
                for c in rng.sample(range(3), rng.randint(1, 3)):
                    kind = "timeout" if (rng.random() < 0.25 and nt < max_timeouts) else "raise"
                    nt += kind == "timeout"
                    s[(rid, c)] = kind
            else:
                kind = "timeout" if (rng.random() < 0.3 and nt < max_timeouts) else "raise"
                nt += kind == "timeout"
                g[rid] = kind
        m = {}
        if rng.random() < 0.4:
            m[rng.choice(ids)] = rng.choice(["raise", "raise-empty"])
        out.append((s, g, m))
    return out


def run_faulted(inputs, search, graph, merge=None):
    with faults.Faults(search, graph, merge=merge) as F:
        tr = pipeline.traced_run(inputs, n_jobs=1)
    tr["fired"] = list(F.fired)
    tr["affected"] = sorted(F.affected())
    return tr


def statement(ctx, inputs, base, tr, search, graph, merge=None):
    desc = {"search": {"%s/%s" % k: v for k, v in search.items()}, "graph": graph, "merge": merge or {}, "inputs": inputs}
    ctx.case(("c11", json.dumps(desc, sort_keys=True)), nontrivial=bool(tr["fired"]))
    for f in tr["fired"]:
        ctx.count("fault:%s:%s" % (f[0], f[-1]))
    if tr["out"] is None or len(tr["out"]) != len(inputs):
        ctx.violation("rows-lost-under-faults", desc, "error=%s rows=%s" % (tr["error"], None if tr["out"] is None else len(tr["out"])),
                      "synrbl/mcs_search.py:find")
        return False
    affected = set(tr["affected"])
    for i, (r, r0) in enumerate(zip(tr["out"], base["out"])):
        if pipeline.hit_by_real_timeout(r) or pipeline.hit_by_real_timeout(r0):
            # a genuine wall-clock timeout (machine load) hit this row in one of the two runs: it is an affected row
            ctx.count("row-hit-by-real-timeout")
            affected = affected | {str(i)}
        if str(i) in affected:
            if r.get("solved"):
                ok = chem.truly_balanced(r["reaction"]) is True
            else:
                ok = r["reaction"] == r["input_reaction"] and isinstance(r.get("issue"), str) and r["issue"] != ""
            if not ok:
                ctx.violation("faulted-row-unsafe", desc, "row %d: %s" % (i, r), "synrbl/SynMCSImputer/mcs_based_method.py")
                return False
        else:
            if {k: r.get(k) for k in KEYS} != {k: r0.get(k) for k in KEYS}:
                ctx.violation("fault-leaks-into-other-row", desc, "row %d: %s vs without faults %s" % (i, r, r0),
                              "synrbl/mcs_search.py:find id->index map")
                return False
    return True


def explore(ctx, nrows, count, compare=True):
    inputs = mcs_inputs(ctx, nrows)
    base = pipeline.traced_run(inputs, n_jobs=1)
    if base["out"] is None:
        ctx.corr_break("Pipeline:run-raised", inputs, "model never raises", base["error"])
        return inputs, []
    if compare:
        pipeline.compare_trace(ctx, base)
    done = []
    for pat in patterns(ctx, nrows, count):
        search, graph = pat[0], pat[1]
        merge = pat[2] if len(pat) > 2 else {}
        tr = run_faulted(inputs, search, graph, merge)
        if compare:
            pipeline.compare_trace(ctx, tr, layer="Pipeline(faults)")
        done.append((search, graph, tr))
        if not statement(ctx, inputs, base, tr, search, graph, merge):
            break
    return inputs, done


def search(ctx):
    explore(ctx, 5, 25, compare=False)


def run(ctx):
    built, drv = prepare(
        ctx,
        MODULE,
        "a batch of MCS-solved reactions from the shared workload plus a rule-based and a balanced row, run in-process "
        "(n_jobs=1) without faults and under fault patterns: hand-placed (all three search conditions of a row raise; one "
        "condition sleeps past the 2 s wait and then finishes = zombie thread; the fragment analysis raises / times out; "
        "exceptions whose message is empty; failures inside the merge step of the imputation; a fragment analysis that keeps "
        "running for 5 s after it was abandoned, with further rows analysed behind it) and "
        "seeded subsets of (row, condition) search jobs and fragment-analysis jobs; every faulted run is traced and compared "
        "with the Lean row machine under the recorded (faulty) oracle; statement: unaffected rows identical to the fault-free "
        "run, affected rows solved-and-balanced or declined unchanged with a reason, no row lost "
        "(non-trivial = a fault actually fired; distinct by pattern)",
        ["real preemption / load-dependent timeouts cannot be exhibited by the model: they are other oracles, covered by the "
         "for-all-oracles theorems; injection inside joblib worker processes (n_jobs>1) is not exercised"],
    )
    if drv:
        quick = ctx.tier == "quick"
        inputs, done = explore(ctx, 4 if quick else 6, 3 if quick else 60)
        if done:
            s, g, tr = done[min(1, len(done) - 1)]
            ctx.sample({"faults": {"search": {"%s/%s" % k: v for k, v in s.items()}, "graph": g},
                        "row0": {k: tr["out"][0].get(k) for k in ("solved", "issue")} if tr["out"] else None})
    return ctx.finish(search)
