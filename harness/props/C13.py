"""C13 — the confidence threshold only demotes low-confidence MCS results."""
import pipeline
from _rowmachine import prepare

MODULE = "SynRBLModel.Properties.C13"
KEYS = ("reaction", "solved", "solved_by", "issue", "rules", "confidence", "input_reaction")


def pick_mcs_inputs(ctx, n):
    """inputs of the shared trace that ended mcs-based (they have a confidence) plus a few others"""
    mix = pipeline.workload_mix(ctx)
    out = mix["out"] or []
    mcs = [inp for inp, r in zip(mix["inputs"], out) if r.get("solved_by") == "mcs-based" and pipeline.is_small(inp, 40)]
    other = [inp for inp, r in zip(mix["inputs"], out) if r.get("solved_by") != "mcs-based"]
    rng = ctx.rng
    rng.shuffle(mcs)
    rng.shuffle(other)
    return mcs[:n] + other[: max(6, n // 3)], mix


def statement(ctx, runs):
    """runs: {threshold: traced run} over the same inputs"""
    ts = sorted(runs)
    base = runs[ts[0]]["out"]
    for t in ts:
        out = runs[t]["out"]
        if out is None or len(out) != len(base):
            ctx.violation("run-failed-under-threshold", {"threshold": t}, str(runs[t]["error"]), "confidence_prediction.py")
            return
        for i, r in enumerate(out):
            r0 = base[i]
            if pipeline.hit_by_real_timeout(r) or pipeline.hit_by_real_timeout(r0):
                ctx.count("row-hit-by-real-timeout(not compared)")
                continue
            c = r.get("confidence")
            ctx.case(("c13", r["input_reaction"], t), nontrivial=c is not None)
            if r.get("solved_by") == "mcs-based":
                ctx.count("mcs-row@t")
                if c is None or not (0.0 <= c <= 1.0) or c != r0.get("confidence"):
                    ctx.violation("confidence-depends-on-threshold-or-out-of-range", r["input_reaction"],
                                  "t=%s confidence=%r at t=%s: %r" % (t, c, ts[0], r0.get("confidence")), "confidence_prediction.py:predict")
                    return
                want = c >= t  # the reported confidence (a float) against the threshold, exactly
                if bool(r.get("solved")) != want:
                    ctx.violation("threshold-boundary-wrong", r["input_reaction"],
                                  "t=%s confidence=%r solved=%s" % (t, c, r.get("solved")), "confidence_prediction.py:predict")
                    return
                if not want:
                    issue = r.get("issue") or ""
                    if "{:.2%}".format(t) not in issue:
                        ctx.violation("demoted-row-issue-does-not-name-threshold", r["input_reaction"], "t=%s issue=%r" % (t, issue),
                                      "confidence_prediction.py:predict")
                        return
            else:
                if {k: r.get(k) for k in KEYS} != {k: r0.get(k) for k in KEYS}:
                    ctx.violation("non-mcs-row-changes-with-threshold", r["input_reaction"],
                                  "t=%s %s vs %s" % (t, r, r0), "confidence_prediction.py:predict")
                    return
    # monotone
    for a, b in zip(ts, ts[1:]):
        for ra, rb in zip(runs[a]["out"], runs[b]["out"]):
            if rb.get("solved") and not ra.get("solved"):
                ctx.violation("raising-threshold-solved-a-row", ra["input_reaction"], "t=%s unsolved, t=%s solved" % (a, b),
                              "confidence_prediction.py:predict")
                return


def thresholds_for(confs, rng, k):
    ts = {0, 0.5, 1}
    for c in rng.sample(sorted(confs), min(k, len(confs))):
        c3 = round(c, 3)
        for d in (-0.001, 0, 0.001):
            t = round(c3 + d, 3)
            if 0 <= t <= 1:
                ts.add(t)
    return sorted(ts)


def search(ctx):
    inputs, mix = pick_mcs_inputs(ctx, 60)
    confs = {r["confidence"] for r in mix["out"] if r.get("confidence") is not None}
    runs = {t: pipeline.traced_run(inputs, n_jobs=14, threshold=t) for t in thresholds_for(confs, ctx.rng, 6)}
    statement(ctx, runs)


def run(ctx):
    built, drv = prepare(
        ctx,
        MODULE,
        "the MCS-based rows of the shared traced run (plus rows of the other kinds) re-run under thresholds {0, 0.5, 1} and "
        "{c-0.001, c, c+0.001} for seeded observed confidences c, each with a fresh object and again on one long-lived object whose "
        "confidence_threshold attribute is changed between calls (descending, then ascending); every run is traced and compared with the Lean row machine "
        "(thresholds and confidences as exact binary fractions); statement on the real rows: confidence identical for every "
        "threshold and in [0,1], solved iff confidence >= t, demoted rows name the threshold, all other rows identical, monotone "
        "(non-trivial = row with a confidence; distinct by input and threshold)",
        ["confidences and thresholds enter the model as exact integers (value x 2^70): the code compares the float32 "
         "confidence with the float threshold in float64, i.e. exactly; at a threshold equal to the 3-decimal rounding of a "
         "confidence the outcome depends on the float32 rounding direction (0.156 -> kept, 0.088 -> demoted), which the model "
         "reproduces"],
    )
    if drv:
        quick = ctx.tier == "quick"
        inputs, mix = pick_mcs_inputs(ctx, 24 if quick else 200)
        confs = {r["confidence"] for r in mix["out"] if r.get("confidence") is not None}
        runs = {}
        for t in thresholds_for(confs, ctx.rng, 2 if quick else 10):
            tr = pipeline.traced_run(inputs, n_jobs=12, threshold=t)
            runs[t] = tr
            pipeline.compare_trace(ctx, tr)
            if tr["error"]:
                ctx.corr_break("Pipeline:run-raised", {"threshold": t}, "model never raises", tr["error"])
        statement(ctx, runs)
        # one long-lived Balancer whose public `confidence_threshold` attribute is changed between calls (descending, then
        # ascending): every call must behave like a fresh object constructed with that threshold
        from synrbl import Balancer

        obj = Balancer(n_jobs=12, confidence_threshold=max(runs))
        ts = sorted(runs)
        for t in ts[::-1] + ts[1:]:
            obj.confidence_threshold = t
            tr = pipeline.traced_run(inputs, threshold=t, balancer=obj)
            pipeline.compare_trace(ctx, tr)
            ctx.count("reconfigured-object-run")
            statement(ctx, {ts[0]: runs[ts[0]], t: tr} if t != ts[0] else {t: tr})
            fresh = runs[t]["out"]
            if tr["out"] is not None and fresh is not None:
                for a, b in zip(tr["out"], fresh):
                    if pipeline.hit_by_real_timeout(a) or pipeline.hit_by_real_timeout(b):
                        continue
                    if {k: a.get(k) for k in KEYS} != {k: b.get(k) for k in KEYS}:
                        ctx.violation("reconfigured-object-differs-from-fresh-object", a["input_reaction"],
                                      "threshold set to %s on a used object: %s; fresh object: %s" % (t, a, b), "synrbl/balancing.py:confidence_threshold")
                        break
        # caller-chosen column names at thresholds above 0 (untraced): the rows must equal those of the default configuration
        import copy

        for t in [x for x in ts if x > 0][:2] + ([ts[-1]] if ts[-1] > 0 else []):
            try:
                cb = Balancer(n_jobs=12, confidence_threshold=t, reaction_col="rxn", id_col="rid")
                out = cb.rebalance([{"rxn": r, "rid": 900 + 2 * i} for i, r in enumerate(copy.deepcopy(inputs))], output_dict=True)
                out = [dict({k: v for k, v in r.items() if k != "rxn"}, reaction=r.get("rxn")) for r in out]
                err = None
            except Exception as e:
                out, err = None, "%s: %s" % (type(e).__name__, e)
            ctx.count("custom-columns-run")
            fresh = runs[t]["out"]
            if out is None or fresh is None or len(out) != len(fresh):
                ctx.violation("rows-lost-under-column-names-and-threshold", {"threshold": t, "reaction_col": "rxn", "id_col": "rid"},
                              "error=%s rows=%s of %s" % (err, None if out is None else len(out), len(inputs)), "synrbl/confidence_prediction.py:predict")
                break
            for a, b in zip(out, fresh):
                if pipeline.hit_by_real_timeout(a) or pipeline.hit_by_real_timeout(b):
                    continue
                if {k: a.get(k) for k in KEYS} != {k: b.get(k) for k in KEYS}:
                    ctx.violation("row-depends-on-column-names-under-threshold", a.get("input_reaction"),
                                  "t=%s columns rxn/rid: %s; default columns: %s" % (t, a, b), "synrbl/confidence_prediction.py:predict")
                    break
        ctx.sample({"thresholds": sorted(runs), "rows": len(inputs)})
        demo = [r for t in runs for r in (runs[t]["out"] or []) if r.get("solved_by") == "mcs-based" and not r.get("solved")]
        if demo:
            ctx.sample({"demoted": demo[0]["input_reaction"][:80], "confidence": demo[0]["confidence"], "issue": demo[0]["issue"]})
    return ctx.finish(search)
