"""C07 — element, hydrogen and charge accounting of a SMILES is exact."""
import json

import chem
import layers
from core import quiet

quiet()
MODULE = "SynRBLModel.Properties.C07"


def stmt_decompose(ctx, smiles, real):
    """independent statement: decompose == composition by atomic number (named by RDKit) + net charge"""
    tc = chem.true_comp(smiles)
    if tc is None:
        return
    want = {}
    for z, n in tc.items():
        if z == "Q":
            want["Q"] = n
        elif z == 0:
            return  # dummy atoms are outside the property's domain (valid closed-shell molecules)
        else:
            want[chem.element_symbol(z)] = n
    if dict(real) != want:
        ctx.violation(
            "decompose-miscount",
            smiles,
            "decompose=%s true=%s" % (json.dumps(real, sort_keys=True), json.dumps(want, sort_keys=True)),
            "synrbl/SynProcessor/rsmi_decomposer.py:decompose",
        )


def stmt_contract_dicts(ctx, tr, tp, verdict, diff, witness):
    """verdict and difference formula agree with the two compositions (zeros dropped)"""
    tr = {k: v for k, v in tr.items() if v != 0}
    tp = {k: v for k, v in tp.items() if v != 0}
    keys = set(tr) | set(tp) | set(diff)
    ok = True
    if verdict == "Balance":
        ok = tr == tp
    elif tr == tp:
        ok = False
    elif verdict == "Products":
        ok = all(tp.get(k, 0) + diff.get(k, 0) == tr.get(k, 0) for k in keys)
    elif verdict == "Reactants":
        ok = all(tr.get(k, 0) + diff.get(k, 0) == tp.get(k, 0) for k in keys)
    # with equal charge on both sides the verdict is determined by the element counts alone
    if ok and tr.get("Q", 0) == tp.get("Q", 0) and tr != tp:
        ek = [k for k in keys if k != "Q"]
        ge = all(tr.get(k, 0) >= tp.get(k, 0) for k in ek)
        le = all(tr.get(k, 0) <= tp.get(k, 0) for k in ek)
        want = "Products" if ge else ("Reactants" if le else "Both")
        ok = verdict == want
    if not ok:
        ctx.violation(
            "verdict-disagrees-with-true-composition",
            witness,
            "verdict=%s diff=%s true_r=%s true_p=%s" % (verdict, diff, tr, tp),
            "synrbl/SynProcessor/rsmi_comparator.py",
        )
    return ok


def stmt_contract(ctx, rs, ps, verdict, diff):
    tr, tp = chem.true_comp(rs), chem.true_comp(ps)
    if tr is None or tp is None or 0 in tr or 0 in tp:
        return
    name = lambda z: "Q" if z == "Q" else chem.element_symbol(z)
    tr = {name(z): n for z, n in tr.items()}
    tp = {name(z): n for z, n in tp.items()}
    stmt_contract_dicts(ctx, tr, tp, verdict, diff, rs + ">>" + ps)


def corr_decompose(ctx, mols):
    real = layers.real_decompose(mols)
    ops, idx = [], []
    for i, s in enumerate(mols):
        at = chem.atoms_of(s)
        if at is None:
            ctx.count("decompose:unparsable")
            if real[i] != {}:
                ctx.corr_break("Decompose", s, {}, real[i])
            continue
        ops.append({"op": "decompose", "atoms": at})
        idx.append(i)
    model = ctx.driver(ops)
    bad = 0
    for i, m in zip(idx, model):
        s = mols[i]
        r = layers.dict_pairs(real[i])
        ctx.case("mol:" + s, nontrivial=len(real[i]) > 1)
        ctx.count("decompose:keys=%d" % min(len(real[i]), 6))
        if "Q" in real[i]:
            ctx.count("decompose:charged")
        if m.get("comp") != r:
            bad += 1
            if bad <= 3:
                ctx.corr_break("Decompose", s, m, r)
        stmt_decompose(ctx, s, real[i])
    ctx.traces += len(idx)
    return real


def corr_carbon(ctx, rxns):
    from synrbl.SynProcessor import CheckCarbonBalance

    data = [{"reaction": r} for r in rxns]
    out = CheckCarbonBalance(data, rsmi_col="reaction", symbol=">>", atom_type="C", n_jobs=1).check_carbon_balance()
    ops, idx = [], []
    for i, r in enumerate(rxns):
        parts = r.split(">>")
        if len(parts) != 2:
            continue
        rc, pc = chem.carbon_count(parts[0]), chem.carbon_count(parts[1])
        if rc is None or pc is None:
            continue
        ops.append({"op": "carbonLabel", "rc": rc, "pc": pc})
        idx.append(i)
    model = ctx.driver(ops)
    for i, m in zip(idx, model):
        lab = out[i]["carbon_balance_check"]
        ctx.case("carbon:" + rxns[i], nontrivial=lab != "balanced")
        ctx.count("carbon:" + lab)
        if m.get("label") != lab:
            # the model is fed the true carbon counts, so a disagreement is at once a violation of the statement
            ctx.corr_break("CarbonLabel", rxns[i], m, lab)
            ctx.violation(
                "carbon-label-disagrees-with-true-count",
                rxns[i],
                "label=%s true=%s" % (lab, m.get("label")),
                "synrbl/SynProcessor/check_carbon_balance.py",
            )
    ctx.traces += len(idx)


def gen_mols(ctx, n_corpus, n_mix):
    rng = ctx.rng
    mols = chem.special_molecules()
    corpus = chem.corpus_molecules()
    mols += rng.sample(corpus, min(n_corpus, len(corpus)))
    base = mols[:]
    for _ in range(n_mix):
        k = rng.randint(2, 4)
        mols.append(".".join(rng.choice(base) for _ in range(k)))
    return mols


def gen_pairs(ctx, n):
    rng = ctx.rng
    if ctx.tier == "thorough":
        ds = layers.small_dicts(["C", "H", "O"], [1, 2, 3], [-2, -1, 1, 2])
        ctx.exhaustive = True
        return [(a, b) for a in ds for b in ds]
    ds = layers.small_dicts(["C", "H", "O"], [1, 2, 3], [-2, -1, 1, 2])
    pairs = [(rng.choice(ds), rng.choice(ds)) for _ in range(n)]
    # larger random vectors over the database's elements
    elems = ["C", "H", "O", "N", "S", "Cl", "Br", "Na", "K", "B", "P", "F", "I", "Li", "Mg", "Zn", "Cu", "Al", "Ca", "Ba"]
    for _ in range(n // 4):
        def rd():
            ks = rng.sample(elems, rng.randint(0, 5))
            d = {k: rng.randint(1, 12) for k in ks}
            if rng.random() < 0.4:
                q = rng.choice([-3, -2, -1, 1, 2, 3])
                if rng.random() < 0.5:
                    d = {"Q": q, **d}
                else:
                    d["Q"] = q
            return d
        a = rd()
        b = dict(a) if rng.random() < 0.3 else rd()
        if rng.random() < 0.5 and b:
            k = rng.choice(list(b))
            b[k] += rng.choice([-1, 1, 2])
            if b[k] == 0:
                del b[k]
        pairs.append((a, b))
    return pairs


def additivity(ctx, mols, real):
    from synrbl.SynProcessor import RSMIDecomposer

    rng = ctx.rng
    ok_idx = [i for i, s in enumerate(mols) if chem.atoms_of(s) is not None and "." not in s]
    for _ in range(300 if ctx.tier == "quick" else 3000):
        i, j = rng.choice(ok_idx), rng.choice(ok_idx)
        mix = mols[i] + "." + mols[j]
        d = RSMIDecomposer.decompose(mix)
        want = {}
        for part in (real[i], real[j]):
            for k, v in part.items():
                want[k] = want.get(k, 0) + v
        want = {k: v for k, v in want.items() if v != 0}
        ctx.case("mix:" + mix)
        if dict(d) != want:
            ctx.violation("decompose-not-additive", mix, "got %s want %s" % (d, want), "rsmi_decomposer.py:decompose")


def contract_on_reactions(ctx, n):
    """the comparator's verdict on real reactions vs the true compositions of the sides"""
    from synrbl.SynProcessor import RSMIComparator, RSMIDecomposer

    rng = ctx.rng
    rx = chem.corpus_reactions()
    pick = rng.sample(rx, min(n, len(rx)))
    extra = ["[U]>>[Th]", "[Na+].[Cl-]>>[Na]Cl", "CC(=O)O.[OH-]>>CC(=O)[O-].O", "C1.C1>>CC", "[Cl-]>>Cl", "[Og]>>[Ts]",
             "CC(=O)[O-]>>CC(=O)O", "[NH4+].[OH-]>>N.O", "[Cu+2].[Zn]>>[Cu].[Zn+2]", "[2H]O[2H]>>O"]
    for r in pick + extra:
        rs, ps = r.split(">>")
        a, b = RSMIDecomposer.decompose(rs), RSMIDecomposer.decompose(ps)
        v, d = RSMIComparator.compare_dicts(a, b), RSMIComparator.diff_dicts(a, b)
        ctx.case("rxn:" + r, nontrivial=v != "Balance")
        stmt_contract(ctx, rs, ps, v, d)
    return pick + extra


def search(ctx):
    """failing-input search after a broken obligation / correspondence: the executable statement over the whole
    corpus, every element and generated mixtures"""
    mols = chem.special_molecules() + chem.corpus_molecules()
    real = layers.real_decompose(mols)
    for s, r in zip(mols, real):
        stmt_decompose(ctx, s, r)
        if ctx.violations:
            return
    contract_on_reactions(ctx, 5032)
    if ctx.violations:
        return
    from synrbl.SynProcessor import RSMIComparator

    ds = layers.small_dicts(["C", "H", "O"], [1, 2, 3], [-2, -1, 1, 2])
    for a in ds:
        for b in ds:
            v, d = RSMIComparator.compare_dicts(a, b), RSMIComparator.diff_dicts(a, b)
            if not stmt_contract_dicts(ctx, a, b, v, d, {"r": a, "p": b}):
                return


def run(ctx):
    ctx.rule = (
        "decompose: one molecule per element Z=1..118, ions/isotopes/explicit-H/dot-closure specials, a seeded sample of "
        "corpus molecules and random 2-4 component mixtures (non-trivial = more than one key; distinct by SMILES); "
        "comparator/both-side/water: seeded (quick) or exhaustive (thorough) pairs of small composition dictionaries over "
        "C,H,O (absent or 1..3) and Q (absent or ±1,±2, first or last key) plus larger random vectors (non-trivial = verdict "
        "other than Balance; distinct by the pair); carbon label and verdict contract: corpus reactions vs RDKit counts by "
        "atomic number"
    )
    ctx.assumptions = [
        "RDKit parsing/AddHs supplies the atom list; oracle law `Named` (atom symbol = periodic-table symbol of Z) is "
        "evaluated on every recorded atom list",
        "Python dict semantics as modelled in Py/Dict.lean",
    ]
    ctx.gen_tables()
    built = ctx.build([MODULE])
    drv = ctx.build_driver()
    if built:
        ctx.audit(MODULE)
    if drv:
        quick = ctx.tier == "quick"
        mols = gen_mols(ctx, 1500 if quick else 10817, 300 if quick else 3000)
        real = corr_decompose(ctx, mols)
        additivity(ctx, mols, real)
        pairs = gen_pairs(ctx, 6000)
        real_an, _ = layers.corr_analyse(ctx, pairs)
        for (r, p), a in zip(pairs, real_an):
            # composition dictionaries without stored zeros, as the decomposer produces them
            if not stmt_contract_dicts(ctx, r, p, a["verdict"], dict(a["diff"]), {"r": r, "p": p}):
                break
        rx = contract_on_reactions(ctx, 400 if quick else 5032)
        corr_carbon(ctx, [chem_strip(r) for r in rx])
        ctx.sample({"decompose": mols[130], "comp": layers.dict_pairs(real[130])})
        ctx.sample({"pair": [layers.dict_pairs(pairs[0][0]), layers.dict_pairs(pairs[0][1])]})
        ctx.sample({"reaction": rx[0]})
    return ctx.finish(search)


def chem_strip(r):
    return r
