"""C09 — fragment merging conserves atoms and its reported rules explain the result.

Lean side: `Model/Graph.lean` (molecules as atom / bond lists, `mergeTwo` = `_fix_Hs` + `merge_two_mols`),
`Model/Merge.lean` (`merge(CompoundSet)`: compound rules, expansion loop, first applicable merge rule, role swap, boundary
removal, rule accumulation, concat), `Generated/MergeRules.lean` (the three JSON tables), `Properties/C09.lean`.

This file
  (1) ties the model to the code: the real `merge` runs on compound sets built the way the pipeline builds them (fragment
      SMILES from the `FindMissingGraphs` recipe, boundary index + symbol, neighbour index + symbol, `src_mol`); class-level
      wrappers record every answer the model treats as an oracle (functional-group / pattern tests, `change_bond` atoms,
      `ReplaceAction`, `SanitizeMol`, compound-rule tests); the driver replays `merge` on the exported RDKit graphs with
      those answers; atoms, bonds, reported rules, remaining boundaries and error kinds are compared;
  (2) states the property independently on the real code with RDKit as the reference (never through the model):
      the result parses and sanitises, has no boundary, the same number of carbons and the heavy atoms of the active
      fragments plus the compounds of the reported expand rules; a true cut of an acyclic single bond is glued back to the
      original molecule (stereo-free canonical SMILES) unless a rule without bond (documented restriction) fired; a
      completed single fragment is the fragment plus exactly one atom of the reported rule's compound;
  (3) monitors the two oracle laws of `Oracle.Laws` on every recorded answer.
"""
import collections
import itertools
import copy
import json
import os

from rdkit import Chem

import chem
import gen_merge
from core import quiet

quiet()
MODULE = "SynRBLModel.Properties.C09"
CALL_SITE = "synrbl/SynMCSImputer/merge.py:merge"
M_INVALID = "merged-product-invalid"
M_OPEN = "merged-product-has-open-boundary"
M_CARBON = "merged-product-carbon-count-differs"
M_ATOMS = "merged-product-atoms-not-explained-by-rules"
M_ROUNDTRIP = "cut-merge-does-not-reconstruct-molecule"
M_RAISES = "cut-merge-raises-on-true-cut"
M_EXPANSION = "expansion-is-not-fragment-plus-rule-compound"
M_RESTRICT = "unbonded-result-without-documented-restriction"
M_LAW = "oracle-law-broken"
M_HANG = "merge-does-not-terminate"
M_SWAP = "completion-returns-the-expansion-compound"
# the documented restrictions: pairs of boundary symbols whose bond `merge` may refuse (S-halogen; any two of N, O, halogens)
_HET = ["N", "O", "F", "Cl", "Br", "I"]
DOCUMENTED_RESTRICTIONS = {"S bond restriction": (["S"], ["F", "Cl", "Br", "I"]), "bond restriction": (_HET, _HET)}

# constructed molecules: every hetero-atom pair the restriction rules name, P=O / P-O / S-X / N-N / N-O / O-O, metals and
# semi-metals of `form M-OH`, ethers / esters / amides / thio analogues, bracket atoms with explicit hydrogens
CONSTRUCTED = [
    "CCO", "CCOC", "COc1ccccc1", "CSc1ccccc1", "CCSC", "CC(=O)OC", "CC(=O)OCC", "CC(=O)SC", "CC(=O)NC", "CC(=O)N(C)C",
    "CNO", "CON", "CONC", "NN", "CNN", "CNNC", "OO", "COOC", "CON(C)C(=O)C1CCN(Cc2ccccc2)CC1", "NCl", "CNCl", "OCl", "COCl",
    "CSCl", "CSBr", "CS(=O)(=O)Cl", "CS(=O)(=O)F", "ClSCl", "FS(F)(F)(F)(F)F", "CSSC", "CSN", "CSO", "CS(=O)(=O)O",
    "CS(=O)(=O)Oc1ccccc1", "COP(=O)(OC)OC", "CP(=O)(O)O", "CCOP(=O)(Cc1cccc(C#N)c1)OCC", "BrP(Br)Br", "CP(C)C", "OP(O)O",
    "C[PH](=O)O", "COP(C)(=O)c1ccccc1", "C[Mg]Br", "C[Mg+]", "CC[Zn]CC", "C[Zn]Br", "C[Si](C)(C)C", "C[Si](C)(C)Cl",
    "C[SiH](C)C", "C[SiH2]C", "CO[Si](C)(C)C", "CB(O)O", "OB(O)c1ccccc1", "CC1(C)OB(C(C)C)OC1(C)C", "CB(C)C", "C[BH]C",
    "CC(C)(C)OC(=O)NC", "CN=[N+]=[N-]", "CS(=O)(=O)N=[N+]=[N-]", "C=CC", "C=CN", "CC#N", "N#CC1CC1", "Clc1ccccc1CBr",
    "c1ccc(-c2ccccn2)cc1", "Cn1ccnc1", "Cn1cccc1", "c1ccn(-c2ccccc2)c1", "C[n+]1ccccc1", "C[N+](C)(C)C", "C[NH+](C)C",
    "C[S+](C)C", "CC([O-])=O", "C[O-]", "CCCC[Sn](CCCC)(CCCC)c1cccs1", "C[Sn](C)(C)C", "C[Se]C", "C[Ge](C)(C)C", "CI",
    "CBr", "CF", "C[C@H](N)C(=O)O", "C[C@@](F)(Cl)Br", "N[C@@H](CS)C(=O)O", "C/C=C/C", "F/C=C/F", "OCC(O)CC(O)O",
    "O=Cc1ccccc1C=O", "O=C1NC(=O)c2ccccc21", "CC(C)(C)ONC(=O)NCc1cccc2ccccc12", "CC(=O)SCC(C)C(=O)N(CC(=O)O)C1CCC1",
    "CS(C)=O", "C[SH](C)(C)=O", "COS(C)(=O)=O", "CN(C)N=O", "CN(C)O", "C[N+](C)(C)[O-]", "CC(C)=NO", "CC(=O)OO",
    "O=C(n1ccnc1)n1ccnc1", "Oc1cccc2[nH]c(COCc3ccccc3)nc12", "CC(=O)Oc1ccccc1C(=O)O", "NC(=O)c1ccccc1", "CCN(CC)CC",
]

# molecules whose cores keep open points of different kinds (with and without an expansion rule: C / N / O / S next to C)
MULTI = [
    "O=C(NCCCOc1ccccc1)c1ccccc1", "CS(=O)CCOC(C)=O", "CC(=O)OCCNC(C)=O", "COC(=O)CCC(=O)OCC", "CCOC(=O)CN(C)C(=O)OC", "CSCCN(C)CCOC",
    "CC(=O)Nc1ccc(OC(C)=O)cc1", "COc1ccc(SC)cc1OC", "CCN(CC)C(=O)COC(=O)CC", "CC(C)OC(=O)C(C)NC(=O)OC(C)(C)C", "COCCOCCOC", "CNC(=O)CCSC",
    # one atom carrying two or three open points once its substituents are removed (acetals, ketals, orthoesters, aminals)
    "COCOC", "CC(C)(OC)OC", "COC(OC)OC", "COC(OC)c1ccccc1", "CN(C)COC", "CCOC(C)OCC", "COC(C)(C)OCC", "CSCSC", "COCN(C)C", "CC(OC)(OC)OC",
    # isotope labels: hydrogens that are atoms of the molecular graph
    "[2H]c1ccccc1CCCC", "[2H]C([2H])([2H])OC(=O)CC", "CC(=O)OC([2H])([2H])C", "[3H]c1ccc(OC)cc1", "[2H]N(C)C(=O)CC", "[13CH3]OC(=O)CC",
]

# hand-made compound sets (fragment SMILES, source SMILES, boundaries (index, symbol, neighbour index, neighbour symbol))
# that reach the rules no cut of one molecule reaches (P=O handling, N#N, water / alcohol catalysts) and the error paths
HANDMADE = [
    ("phosphor single bond", [("O", "CCO", [(0, "O", 1, "C")]), ("BrPBr", "BrP(Br)Br", [(1, "P", 2, "Br")])]),
    ("phosphor double bond", [("O", "CC=O", [(0, "O", 1, "C")]), ("BrPBr", "BrP(Br)Br", [(1, "P", 2, "Br")])]),
    ("phosphor double bond change", [("O", "CC(C)=O", [(0, "O", 1, "C")]), ("O=P(O)O", "CP(=O)(O)O", [(1, "P", 0, "C")])]),
    ("phosphor swapped roles", [("BrPBr", "BrP(Br)Br", [(1, "P", 2, "Br")]), ("O", "CCO", [(0, "O", 1, "C")])]),
    ("phosphor double change swapped", [("O=P(O)O", "CP(=O)(O)O", [(1, "P", 0, "C")]), ("O", "CC(C)=O", [(0, "O", 1, "C")])]),
    ("P with explicit H", [("CCO[PH](=O)OCC", "CCOP(=O)(Cc1cccc(C#N)c1)OCC", [(3, "P", 5, "C")]), ("O", "CC(C)=O", [(0, "O", 1, "C")])]),
    ("nitrogen double bond", [("C", "C=C", [(0, "C", 1, "C")]), ("N#N", "CS(=O)(=O)N=[N+]=[N-]", [(0, "N", 5, "N")])]),
    ("nitrogen double bond swapped", [("N#N", "CS(=O)(=O)N=[N+]=[N-]", [(0, "N", 5, "N")]), ("C", "C=C", [(0, "C", 1, "C")])]),
    ("S bond restriction", [("CS", "CSCl", [(1, "S", 2, "Cl")]), ("Cl", "CSCl", [(0, "Cl", 1, "S")])]),
    ("bond restriction Br/N", [("Br", "Clc1ccccc1CBr", [(0, "Br", 7, "C")]), ("N", "N#CC1CC1", [(0, "N", 1, "C")])]),
    ("default B-C", [("CC1(C)OBOC1(C)C", "CC1(C)OB(Br)OC1(C)C", [(4, "B", 5, "Br")]), ("CCC", "CC(Br)C", [(1, "C", 2, "Br")])]),
    ("charge Mg", [("CNOC", "CON(C)C(=O)C1CCN(Cc2ccccc2)CC1", [(1, "N", 4, "C")]), ("[MgH+]", "C[Mg+]", [(0, "Mg", 0, "C")])]),
    ("ether break", [("C", "COc1ccccc1", [(0, "C", 1, "O")])]),
    ("thioether break", [("C", "CSc1ccccc1", [(0, "C", 1, "S")])]),
    ("ester break", [("CC=O", "CC(=O)OC", [(1, "C", 3, "O")])]),
    ("thioester break", [("CC=O", "CC(=O)SCC(C)C(=O)N(CC(=O)O)C1CCC1", [(1, "C", 3, "S")])]),
    ("amide break", [("CC=O", "CC(=O)NC", [(1, "C", 3, "N")])]),
    ("form Mg-OH", [("[MgH+]", "C[Mg+]", [(0, "Mg", 0, "C")])]),
    ("form Si-OH", [("C[SiH](C)C", "C[Si](C)(C)Cl", [(1, "Si", 4, "Cl")])]),
    ("form B-OH", [("CC1(C)OBOC1(C)C", "CC1(C)OB(Br)OC1(C)C", [(4, "B", 5, "Br")])]),
    ("form Zn-OH", [("C[ZnH]", "C[Zn]Br", [(1, "Zn", 2, "Br")])]),
    ("append O next to O", [("CC(C)(C)", "OC(=O)CONC(=O)NCc1cccc2ccccc12", [(1, "C", 4, "O")])]),
    ("append O to C-C", [("C", "CC", [(0, "C", 1, "C")])]),
    ("explicit H sulfonyl", [("C[SH](=O)=O", "CS(=O)(=O)Oc1ccc(C(=N)N)cc1C(=O)c1ccccc1", [(1, "S", 4, "O")])]),
    ("no expand rule", [("CS(C)=O", "C[SH](C)(C)=O", [(1, "S", 0, "C")])]),
    ("three boundaries", [("CCCCO", "O=CC1=CC2CC(O)OC2C1", [(0, "C", 2, "C"), (1, "C", 9, "C"), (3, "C", 8, "O")])]),
    ("two boundaries one atom", [("C", "CC(C)C", [(0, "C", 1, "C"), (0, "C", 1, "C")])]),
    ("unequal boundaries", [("Cl", "COc1ccc(N(C)c2nc(CCl)nc3ccccc23)cc1Cl", [(0, "Cl", 11, "C")]),
                            ("O=Cc1ccccc1C=O", "O=C1NC(=O)c2ccccc21", [(1, "C", 2, "N"), (8, "C", 2, "N")])]),
    ("unequal boundaries, multi-part", [("Cl.C", "CCl", [(0, "Cl", 0, "C")]), ("O=Cc1ccccc1C=O", "O=C1NC(=O)c2ccccc21", [(1, "C", 2, "N"), (8, "C", 2, "N")])]),
    ("first has two boundaries", [("O=Cc1ccccc1C=O", "O=C1NC(=O)c2ccccc21", [(1, "C", 2, "N"), (8, "C", 2, "N")]), ("Cl", "CCl", [(0, "Cl", 0, "C")])]),
    ("water binds", [("C", "CC(=O)OC", [(0, "C", None, None)]), ("O", "O", [(0, "O", None, None)])]),
    ("water catalyst removed", [("C", "C", [(0, "C", None, None)]), ("O", "O", [(0, "O", None, None)]), ("O", "O", [])]),
    ("two water catalysts", [("C", "CC", [(0, "C", 1, "C")]), ("O", "O", []), ("O", "O", [])]),
    ("catalyst passthrough", [("C", "C", [])]),
    ("two catalysts", [("CC", "CC", []), ("c1ccccc1", "c1ccccc1", [])]),
    ("the same catalyst twice", [("CCO", "CCO", []), ("CCO", "CCO", [])]),
    ("spectator equals the completion", [("CC", "CCOC(C)=O", [(1, "C", 2, "O")]), ("CCO", "CCO", []), ("CCN(CC)CC", "CCN(CC)CC", [])]),
    ("only water catalyst", [("O", "O", [])]),
    ("alcohol catalyst gets boundary", [("CC=O", "CC(=O)Cl", [(1, "C", 3, "Cl")]), ("CO", "CO", [])]),
    ("alcohol catalyst, three compounds", [("CC=O", "CC(=O)Cl", [(1, "C", 3, "Cl")]), ("CO", "CO", []), ("CC", "CC", [])]),
    ("catalyst next to open fragment", [("CC=O", "CC(=O)Cl", [(1, "C", 3, "Cl")]), ("c1ccccc1", "c1ccccc1", [])]),
    ("three open compounds", [("C", "CC", [(0, "C", 1, "C")]), ("C", "CC", [(0, "C", 1, "C")]), ("C", "CC", [(0, "C", 1, "C")])]),
    ("empty set", []),
    ("no source, raising condition", [("C", None, [(0, "C", None, None)]), ("N#N", "CS(=O)(=O)N=[N+]=[N-]", [(0, "N", 5, "N")])]),
    ("valence overflow", [("CC(C)(C)C", "CC(C)(C)CBr", [(1, "C", 5, "Br")]), ("C", "CC", [(0, "C", 1, "C")])]),
    # two and more explicit hydrogens against the double-bond rules (bond_nr = 2) and against expansions
    ("PH2 double bond", [("O", "CC=O", [(0, "O", 1, "C")]), ("C[PH2]", "CP(C)C", [(1, "P", 2, "C")])]),
    ("PH2(C)C double bond", [("O", "CC(C)=O", [(0, "O", 1, "C")]), ("C[PH2](C)C", "CP(C)(C)(C)C", [(1, "P", 4, "C")])]),
    ("PH2 double bond change", [("O", "CC(C)=O", [(0, "O", 1, "C")]), ("O=[PH2]O", "CP(=O)(C)O", [(1, "P", 0, "C")])]),
    ("N#N at the far nitrogen", [("C", "C=C", [(0, "C", 1, "C")]), ("N#N", "CS(=O)(=O)N=[N+]=[N-]", [(1, "N", 5, "N")])]),
    ("SiH3 expansion", [("C[SiH3]", "C[SiH2]Cl", [(1, "Si", 2, "Cl")])]),
    ("SiH4 with water", [("[SiH4]", "[SiH3]Cl", [(0, "Si", 1, "Cl")]), ("O", "O", [(0, "O", None, None)])]),
]


# ------------------------------------------------------------------------------------------------ real code access
def mods():
    import synrbl.SynMCSImputer.merge as M
    import synrbl.SynMCSImputer.rules as R
    import synrbl.SynMCSImputer.structure as S

    return M, R, S


class Log:
    def __init__(self):
        self.ans = []  # [kind, cid, natoms, boundary index, neighbour index, value, answer]
        self.san = []  # [pre graph, post graph | None]
        self.k = 0  # expansion counter
        self.concat = False
        self.san_failed = False
        self.laws = []  # broken oracle laws
        self.pre = []  # molecule handed to every SanitizeMol call


class Rec:
    installed = False
    cur = None


def _key(b):
    c = b.compound
    return [getattr(c, "_cid", 9999), c.mol.GetNumAtoms(), int(b.index), -1 if b.neighbor_index is None else int(b.neighbor_index)]


def install():
    """class-level wrappers around what the model treats as an oracle; no source change in /repo"""
    if Rec.installed:
        return
    Rec.installed = True
    M, R, S = mods()
    tabs = gen_merge.normalise()
    for rule, ent in zip(R.MergeRule.get_all(), tabs["merge"]):
        for objs, key in ((rule.action1, "action1"), (rule.action2, "action2")):
            for a, t in zip(objs, ent[key]):
                a._c09_pattern = t[1] if t[0] in ("change_bond", "replace") else ""
    for rule, ent in zip(R.CompoundRule.get_all(), tabs["compound"]):
        for a, t in zip(rule.action, ent["actions"]):
            a._c09_pattern = t[2] if t[0] == "add_boundary" else ""

    def wrap_check(cls, kind_of):
        orig = cls.check

        def check(self, value, check_value):
            r = orig(self, value, check_value)
            if Rec.cur is not None:
                Rec.cur.ans.append([kind_of(self)] + _key(value) + [str(check_value), bool(r)])
            return r

        cls.check = check

    wrap_check(R.FunctionalGroupProperty, lambda self: "fg")
    wrap_check(R.PatternProperty, lambda self: "srcpat" if self.use_src_mol else "pat")

    def wrap_ccheck(cls, kind, answer):
        orig = cls.check

        def check(self, value, check_value):
            r = orig(self, value, check_value)
            if Rec.cur is not None:
                v = "" if kind == "same" else str(check_value)
                Rec.cur.ans.append([kind, getattr(value, "_cid", 9999), value.mol.GetNumAtoms(), 0, -1, v, bool(answer(value, r))])
            return r

        cls.check = check

    wrap_ccheck(R.IsCatalystCompoundProperty, "same", lambda c, r: c.smiles == c.src_smiles)
    wrap_ccheck(R.SmilesCompoundProperty, "smiles", lambda c, r: r)
    wrap_ccheck(R.FunctionalGroupCompoundProperty, "fgc", lambda c, r: r)

    orig_expand = R.ExpandRule.apply

    def expand_apply(self):
        c = orig_expand(self)
        if Rec.cur is not None:
            c._cid = 1000 + Rec.cur.k
            Rec.cur.k += 1
        return c

    R.ExpandRule.apply = expand_apply

    orig_cb = R.ChangeBondAction.apply

    def cb_apply(self, boundary):
        if Rec.cur is not None:
            match, mapping = R.fgutils.pattern_match(boundary.compound.mol, boundary.index, self.pattern_mol)
            ans = [int(mapping[0][0]), int(mapping[1][0])] if match else None
            Rec.cur.ans.append(["cb"] + _key(boundary) + [self._c09_pattern, ans])
        return orig_cb(self, boundary)

    R.ChangeBondAction.apply = cb_apply

    orig_rep = R.ReplaceAction.apply

    def rep_apply(self, boundary):
        k = _key(boundary)
        before = sorted(a.GetSymbol() for a in boundary.compound.mol.GetAtoms())
        try:
            r = orig_rep(self, boundary)
        except Exception:
            if Rec.cur is not None:
                # distinguish "unparsable" from "symbol changed": the model needs the graph for the latter
                try:
                    m = Chem.MolFromSmiles(boundary.compound.smiles)
                    Rec.cur.ans.append(["reparse"] + k + ["", None if m is None else gen_merge.mol_graph(m)])
                except Exception:
                    Rec.cur.ans.append(["reparse"] + k + ["", None])
            raise
        if Rec.cur is not None:
            g = gen_merge.mol_graph(boundary.compound.mol)
            Rec.cur.ans.append(["reparse"] + k + ["", g])
            if sorted(a[0] for a in g["atoms"]) != before:
                Rec.cur.laws.append({"law": "reparse_cnt", "before": before, "after": g})
        return r

    R.ReplaceAction.apply = rep_apply

    orig_ab = R.AddBoundaryAction.apply

    def ab_apply(self, compound):
        k = [getattr(compound, "_cid", 9999), compound.mol.GetNumAtoms(), 0, -1]
        try:
            r = orig_ab(self, compound)
        except Exception:
            if Rec.cur is not None:
                Rec.cur.ans.append(["addb"] + k + [self._c09_pattern, None])
            raise
        if Rec.cur is not None:
            Rec.cur.ans.append(["addb"] + k + [self._c09_pattern, int(compound.boundaries[-1].index)])
        return r

    R.AddBoundaryAction.apply = ab_apply

    class Ops:
        """stands in for the `rdmolops` module inside rules.py: records the molecule before and after SanitizeMol"""

        def __init__(self, real):
            self._real = real

        def __getattr__(self, n):
            return getattr(self._real, n)

        def SanitizeMol(self, mol, *a, **k):
            cur = Rec.cur
            pre = gen_merge.mol_graph(mol) if cur is not None else None
            if cur is not None:
                cur.pre.append(pre)
            try:
                r = self._real.SanitizeMol(mol, *a, **k)
            except Exception:
                if cur is not None:
                    cur.san.append([pre, None])
                    cur.san_failed = True
                raise
            if cur is not None:
                post = gen_merge.mol_graph(mol)
                if post != pre:
                    cur.san.append([pre, post])
                if [a[0] for a in post["atoms"]] != [a[0] for a in pre["atoms"]]:
                    cur.laws.append({"law": "sanitize_syms", "before": pre, "after": post})
            return r

    R.rdmolops = Ops(R.rdmolops)

    orig_concat = S.Compound.concat

    def concat(self, compound):
        if Rec.cur is not None:
            Rec.cur.concat = True
        return orig_concat(self, compound)

    S.Compound.concat = concat


def build_set(spec):
    """CompoundSet from [(fragment smiles, source smiles | None, [(index, symbol, neighbour index, neighbour symbol)])] — the calls
    `build_compounds` makes (`add_compound(s, src_mol=ss)`, `add_boundary(i, symbol=, neighbor_index=, neighbor_symbol=)`)"""
    M, R, S = mods()
    cs = S.CompoundSet()
    for smi, src, bounds in spec:
        c = cs.add_compound(smi, src_mol=src)
        for bi, bs, ni, ns in bounds:
            c.add_boundary(bi, symbol=bs, neighbor_index=ni, neighbor_symbol=ns)
    return cs


def model_compounds(cs):
    out = []
    for i, c in enumerate(cs.compounds):
        c._cid = i
        out.append(
            {
                "cid": i,
                "g": gen_merge.mol_graph(c.mol),
                "hasSrc": c.src_mol is not None,
                "boundaries": [
                    {"index": int(b.index), "symbol": b.symbol, "nbrIndex": None if b.neighbor_index is None else int(b.neighbor_index),
                     "nbrSymbol": b.neighbor_symbol}
                    for b in c.boundaries
                ],
            }
        )
    return out


def classify(e, log):
    msg = str(e)
    t = type(e).__name__
    if isinstance(e, NotImplementedError):
        import re

        m = re.search(r"Merging (\d+) compounds|\((\d+)\)", msg)
        if m:
            return ["notImplemented", int(m.group(1) or m.group(2))]
        return ["badBond", msg]
    if log.san_failed and t in ("AtomValenceException", "KekulizeException", "AtomKekulizeException", "AtomSanitizeException", "MolSanitizeException"):
        return ["sanitizeFailed"]
    if isinstance(e, AssertionError):
        return ["actionFailed"]
    if isinstance(e, RuntimeError) and "add_boundary" in msg:
        return ["actionFailed"]
    if isinstance(e, RuntimeError) and "does not belong to a set" in msg:
        return ["notInSet"]
    if isinstance(e, ValueError):
        if msg == "No merge rule found.":
            return ["noMergeRule"]
        if msg.startswith("Can not merge compounds with unequal"):
            return ["unequalBoundaries"]
        if msg.startswith("Can not concat"):
            return ["openBoundaries"]
        if msg.startswith("Replace action changed"):
            return ["actionFailed"]
        if msg.startswith("Missing src_mol") or msg.startswith("Missing neighbor index"):
            return ["condRaised"]
    return ["other", t, msg[:120]]


class MergeTimeout(BaseException):
    """raised by the alarm: `_merge_one_compound` loops while boundaries are left (the model proves `len(boundaries)` turns)"""


def run_real(spec):
    """(snapshot of the inputs, outcome of the real merge, log)"""
    M, R, S = mods()
    install()
    cs = build_set(spec)
    comps = model_compounds(cs)
    before = [
        {"mol": Chem.Mol(c.mol), "smiles": c.smiles, "src": c.src_smiles, "nb": len(c.boundaries)} for c in cs.compounds
    ]
    log = Log()
    Rec.cur = log
    import signal

    def _alarm(*_):
        raise MergeTimeout()

    old = signal.signal(signal.SIGALRM, _alarm)
    signal.setitimer(signal.ITIMER_REAL, 5.0)
    try:
        try:
            r = M.merge(cs)
            out = {
                "ok": {
                    "g": gen_merge.mol_graph(r.mol),
                    "rules": [getattr(x, "name", str(x)) for x in r.rules],
                    "boundaries": [[int(b.index), b.symbol] for b in r.boundaries],
                    "cid": getattr(r, "_cid", 9999),
                    "smiles": r.smiles,
                    "mol": Chem.Mol(r.mol),
                }
            }
        except MergeTimeout:
            out = {"error": ["timeout"], "exc": "MergeTimeout: merge() still running after 5 s", "hang": True}
        except Exception as e:  # noqa: BLE001
            out = {"error": classify(e, log), "exc": "%s: %s" % (type(e).__name__, str(e)[:160])}
    finally:
        signal.setitimer(signal.ITIMER_REAL, 0)
        signal.signal(signal.SIGALRM, old)
        Rec.cur = None
    return comps, before, out, log


# ------------------------------------------------------------------------------------------------ correspondence
_BT = {int(v): v for v in Chem.BondType.values.values()}


def mol_from_graph(g):
    rw = Chem.RWMol()
    for s, q, h, ni, ar in g["atoms"]:
        a = Chem.Atom(s)
        a.SetFormalCharge(int(q))
        a.SetNumExplicitHs(int(h))
        a.SetNoImplicit(bool(ni))
        a.SetIsAromatic(bool(ar))
        rw.AddAtom(a)
    for x, y, o in g["bonds"]:
        rw.AddBond(int(x), int(y), _BT[int(o)])
        if int(o) == 12:
            rw.GetBondBetweenAtoms(int(x), int(y)).SetIsAromatic(True)
    return rw.GetMol()


def iso_key(g):
    try:
        m = mol_from_graph(g)
        Chem.SanitizeMol(m)
        return Chem.MolToSmiles(m)
    except Exception:  # noqa: BLE001
        return json.dumps([sorted(map(tuple, g["atoms"])), sorted((min(a, b), max(a, b), o) for a, b, o in g["bonds"])])


def undirected(g):
    """bond direction (which end is `begin`) is not observed by the property: compare bonds as unordered pairs, in list order"""
    if not isinstance(g, dict) or "bonds" not in g:
        return g
    return {"atoms": g["atoms"], "bonds": [[min(a, b), max(a, b), o] for a, b, o in g["bonds"]]}


def names_of(tabs, refs):
    return [tabs[k][i]["name"] if i < len(tabs[k]) else "?%s%d" % (k, i) for k, i in refs]


def corr_flows(ctx, cases, tabs, label):
    """cases: [(key, comps, out, log)] — replay every case in the model and diff"""
    ops = [{"op": "mergeFlow", "compounds": comps, "answers": log.ans, "sanitize": log.san} for _, comps, _, log in cases]
    ans = ctx.driver(ops)
    bad = 0
    for (key, comps, out, log), a in zip(cases, ans):
        ctx.traces += 1
        diff = None
        if "error" in a and isinstance(a["error"], str):
            diff = ("driver", a["error"])
        elif a.get("sensitive"):
            diff = ("an oracle answer the model needed was never asked by the code", a)
        elif "ok" in out:
            if "ok" not in a:
                diff = ("outcome", a.get("error"))
            else:
                m, r = a["ok"], out["ok"]
                if names_of(tabs, m["rules"]) != r["rules"]:
                    diff = ("rules", names_of(tabs, m["rules"]))
                elif [[b["index"], b["symbol"]] for b in m["boundaries"]] != r["boundaries"]:
                    diff = ("boundaries", m["boundaries"])
                elif m["cid"] != r["cid"]:
                    diff = ("compound identity", m["cid"])
                elif log.concat:
                    if iso_key(m["g"]) != iso_key(r["g"]):
                        diff = ("graph up to isomorphism (concat re-parses)", m["g"])
                elif undirected(m["g"]) != undirected(r["g"]):
                    diff = ("graph", m["g"])
        else:
            if "error" not in a or a["error"][: len(out["error"])][:2] != out["error"][:2]:
                diff = ("error kind", a.get("error", a.get("ok", {}).get("rules")))
        if diff is not None:
            bad += 1
            if bad <= 3:
                impl = {k: v for k, v in out.get("ok", out).items() if k != "mol"} if "ok" in out else out
                ctx.corr_break("Merge.merge vs synrbl.SynMCSImputer.merge.merge [%s]" % diff[0], {"case": key, "compounds": comps}, diff[1], impl)
        for law in log.laws:
            ctx.violation(M_LAW, key, json.dumps(law)[:400], "rdkit")
    ctx.count("corr:" + label, len(cases))
    return bad


def corr_merge_two(ctx, rng, frag_graphs, n):
    """`mergeTwo` against the real `MergeRule.apply` (`_fix_Hs`, `merge_two_mols`) on random atom pairs of random fragments:
    a condition-free probe rule with bond None / single / double is applied to two fresh compounds; the molecule it hands to
    `SanitizeMol` (recorded by the wrapper) is compared with the model's graph, the number of components with RDKit's"""
    M, R, S = mods()
    install()
    probes = {None: R.MergeRule(name="probe none"), 1: R.MergeRule(name="probe single", bond="single"), 2: R.MergeRule(name="probe double", bond="double")}
    ops, refs = [], []
    for _ in range(n):
        (sa, ga), (sb, gb) = rng.choice(frag_graphs), rng.choice(frag_graphs)
        i, j = rng.randrange(len(ga["atoms"])), rng.randrange(len(gb["atoms"]))
        order = rng.choice([None, 1, 1, 1, 2, 2])
        c1, c2 = S.Compound(sa), S.Compound(sb)
        b1, b2 = c1.add_boundary(i), c2.add_boundary(j)
        log = Log()
        Rec.cur = log
        try:
            probes[order].apply(b1, b2)
        except Exception:  # noqa: BLE001  (sanitisation may refuse the random bond; the molecule was recorded before)
            pass
        finally:
            Rec.cur = None
        if not log.pre:
            ctx.corr_break("Graph.mergeTwo vs MergeRule.apply", [sa, sb, i, j, order], "a merged molecule", "no molecule reached SanitizeMol")
            break
        g = log.pre[-1]
        ops.append({"op": "mergeTwo", "a": ga, "b": gb, "i": i, "j": j, "order": order})
        refs.append((sa, sb, i, j, order, g, len(Chem.GetMolFrags(mol_from_graph(g)))))
    ans = ctx.driver(ops)
    for (sa, sb, i, j, order, g, ncomp), a in zip(refs, ans):
        ctx.case(("mergeTwo", sa, sb, i, j, order))
        if undirected(a.get("g")) != undirected(g) or a.get("components") != ncomp:
            ctx.corr_break("Graph.mergeTwo vs MergeRule.apply (_fix_Hs + merge_two_mols)", [sa, sb, i, j, order], a, g)
            break
    ctx.count("corr:mergeTwo", len(ops))


def corr_tables(ctx, tabs):
    """the generated tables echoed by the driver == the JSON files as normalised == what the real classes loaded"""
    M, R, S = mods()
    t = ctx.driver([{"op": "mergeTables"}])[0]

    def pj(p):
        return {"pos": list(p[0]), "neg": list(p[1])}

    want = {
        "merge": [
            {"name": r["name"], "cond1": {k: pj(v) for k, v in r["cond1"].items()}, "cond2": {k: pj(v) for k, v in r["cond2"].items()},
             "action1": [list(a) for a in r["action1"]], "action2": [list(a) for a in r["action2"]], "bond": r["bond"]}
            for r in tabs["merge"]
        ],
        "expand": [
            {"name": r["name"], "cond": {k: pj(v) for k, v in r["cond"].items()}, "smiles": r["smiles"], "index": r["index"],
             "g": json.loads(json.dumps(r["g"]))}
            for r in tabs["expand"]
        ],
        "compound": [
            {"name": r["name"], "nr_boundaries": pj(r["nr_boundaries"]), "is_catalyst": pj(r["is_catalyst"]), "smiles": pj(r["smiles"]),
             "fg": pj(r["fg"]), "set_nr_boundaries": pj(r["set_nr_boundaries"]), "set_nr_compounds": pj(r["set_nr_compounds"]),
             "actions": [list(a) for a in r["actions"]]}
            for r in tabs["compound"]
        ],
    }
    ctx.case("tables")
    if json.loads(json.dumps(want)) != t:
        ctx.corr_break("Generated.mergeTables vs JSON files", "tables", t, want)
    # against the objects the real code works with
    real_m = [(r.name, r.bond, [p.pos_values for p in r.condition1.properties], [p.neg_values for p in r.condition1.properties],
               [p.pos_values for p in r.condition2.properties], [p.neg_values for p in r.condition2.properties],
               [type(a).__name__ for a in r.action1], [type(a).__name__ for a in r.action2]) for r in R.MergeRule.get_all()]
    order = gen_merge.BCOND_KEYS
    cls = {"change_bond": "ChangeBondAction", "change_charge": "ChangeChargeAction", "replace": "ReplaceAction"}
    mine_m = [(r["name"], r["bond"], [r["cond1"][k][0] for k in order], [r["cond1"][k][1] for k in order],
               [r["cond2"][k][0] for k in order], [r["cond2"][k][1] for k in order],
               [cls[a[0]] for a in r["action1"]], [cls[a[0]] for a in r["action2"]]) for r in tabs["merge"]]
    if real_m != mine_m:
        ctx.corr_break("merge_rules.json as normalised vs MergeRule.get_all()", "tables", mine_m, real_m)
    real_e = [(r.name, r.compound["smiles"], r.compound["index"], [p.pos_values for p in r.condition.properties],
               [p.neg_values for p in r.condition.properties]) for r in R.ExpandRule.get_all()]
    mine_e = [(r["name"], r["smiles"], r["index"], [r["cond"][k][0] for k in order], [r["cond"][k][1] for k in order]) for r in tabs["expand"]]
    if real_e != mine_e:
        ctx.corr_break("expand_rules.json as normalised vs ExpandRule.get_all()", "tables", mine_e, real_e)
    real_c = [(r.name, [type(a).__name__ for a in r.action],
               [(p.pos_values, p.neg_values) for p in r.condition.compound_condition.properties],
               [(p.pos_values, p.neg_values) for p in r.condition.set_condition.properties]) for r in R.CompoundRule.get_all()]
    ccls = {"add_boundary": "AddBoundaryAction", "set_active": "SetActiveAction"}
    mine_c = [(r["name"], [ccls[a[0]] for a in r["actions"]],
               [tuple(map(list, r[k])) for k in ("nr_boundaries", "is_catalyst", "smiles", "fg")],
               [tuple(map(list, r[k])) for k in ("set_nr_boundaries", "set_nr_compounds")]) for r in tabs["compound"]]
    real_c = [(n, a, [tuple(map(list, x)) for x in c], [tuple(map(list, x)) for x in s]) for n, a, c, s in real_c]
    if real_c != mine_c:
        ctx.corr_break("compound_rules.json as normalised vs CompoundRule.get_all()", "tables", mine_c, real_c)


# ------------------------------------------------------------------------------------------------ fragments (pipeline recipe)
def side_atoms(mol, i, j):
    seen, st = {i}, [i]
    while st:
        a = st.pop()
        for n in mol.GetAtomWithIdx(a).GetNeighbors():
            k = n.GetIdx()
            if (a == i and k == j) or k in seen:
                continue
            seen.add(k)
            st.append(k)
    return seen


def pipeline_fragment(mol, removed):
    """`FindMissingGraphs.find_missing_parts_pairs` (find_missing_graphs.py:105-196) for a given substructure match
    `removed`: (fragment SMILES, boundary dicts, neighbour dicts); uses the repository's own curation helpers"""
    from synrbl.SynMCSImputer.MissingGraph.find_missing_graphs import FindMissingGraphs
    from synrbl.SynMCSImputer.MissingGraph.molcurator import MoleculeCurator

    left = [i for i in range(mol.GetNumAtoms()) if i not in removed]
    mp = Chem.RWMol(mol)
    for idx in sorted(set(removed), reverse=True):
        mp.RemoveAtom(idx)
    old = copy.deepcopy(mp)
    smi = Chem.MolToSmiles(mp)
    try:
        mp = Chem.MolFromSmiles(smi, sanitize=False)
        Chem.SanitizeMol(mp)
    except Exception:  # noqa: BLE001
        mp = MoleculeCurator.manual_kekulize(smi)
    mp = MoleculeCurator.add_hydrogens_to_radicals(mp)
    amap = FindMissingGraphs.map_parent_to_child(old, mp, left)
    b, n = [], []
    for ai in removed:
        sym = mol.GetAtomWithIdx(ai).GetSymbol()
        for nb in mol.GetAtomWithIdx(ai).GetNeighbors():
            if nb.GetIdx() not in removed:
                n.append({sym: ai})
                r = amap.get(nb.GetIdx(), -1)
                if r != -1:
                    b.append({nb.GetSymbol(): r})
    Chem.SanitizeMol(mp)
    mp = MoleculeCurator.standardize_diazo_charge(mp)
    return Chem.MolToSmiles(mp), b, n


def nostereo(smiles_or_mol):
    m = Chem.MolFromSmiles(smiles_or_mol) if isinstance(smiles_or_mol, str) else Chem.Mol(smiles_or_mol)
    if m is None:
        return None
    Chem.RemoveStereochemistry(m)
    return Chem.MolToSmiles(m)


def reference_fragment(mol, bond_idx, keep_atom):
    """RDKit's own cut (independent of the repository): the side containing `keep_atom`, the open valence capped with a
    hydrogen; returns (stereo-free molecule, symmetry class of the cut atom)"""
    fm = Chem.FragmentOnBonds(mol, [bond_idx], addDummies=True, dummyLabels=[(0, 0)])
    maps = []
    frags = Chem.GetMolFrags(fm, asMols=True, sanitizeFrags=False, fragsMolAtomMapping=maps)
    for f, mp in zip(frags, maps):
        if keep_atom not in mp:
            continue
        rw = Chem.RWMol(f)
        for a in rw.GetAtoms():
            if a.GetAtomicNum() == 0:
                nbr = a.GetNeighbors()[0]
                nbr.SetIntProp("c09cut", 1)
                a.SetAtomicNum(1)
                a.SetIsotope(0)
                a.SetNoImplicit(True)
        m = rw.GetMol()
        Chem.SanitizeMol(m)
        m = Chem.RemoveHs(m)
        Chem.RemoveStereochemistry(m)
        t = [a.GetIdx() for a in m.GetAtoms() if a.HasProp("c09cut")]
        ranks = list(Chem.CanonicalRankAtoms(m, breakTies=False))
        return m, ranks[t[0]]
    return None, None


def true_boundary(frag_smiles, pipeline_idx, ref_mol, ref_rank):
    """is the pipeline fragment the reference fragment, and which of its atoms is the cut atom?
    -> (is_true_cut, boundary index, relocated?)"""
    p = Chem.MolFromSmiles(frag_smiles)
    if p is None or ref_mol is None:
        return False, pipeline_idx, False
    q = Chem.Mol(p)
    Chem.RemoveStereochemistry(q)
    if Chem.MolToSmiles(q) != Chem.MolToSmiles(ref_mol):
        return False, pipeline_idx, False
    ranks = list(Chem.CanonicalRankAtoms(q, breakTies=False))
    if pipeline_idx is not None and pipeline_idx < len(ranks) and ranks[pipeline_idx] == ref_rank:
        return True, pipeline_idx, False
    cand = [i for i, r in enumerate(ranks) if r == ref_rank]
    if not cand:
        return False, pipeline_idx, False
    return True, cand[0], True


def cut_cases(ctx, smiles_list, per_mol=None):
    """for every (molecule, acyclic single bond): the two pipeline-built fragments with verified boundaries"""
    out = []
    for s in smiles_list:
        mol = Chem.MolFromSmiles(s)
        if mol is None or "." in s or mol.GetNumHeavyAtoms() > 40 or mol.GetNumAtoms() < 2:
            continue
        s = Chem.MolToSmiles(mol)
        mol = Chem.MolFromSmiles(s)
        bonds = [b for b in mol.GetBonds() if not b.IsInRing() and b.GetBondType() == Chem.BondType.SINGLE]
        if per_mol is not None and len(bonds) > per_mol:
            bonds = ctx.rng.sample(bonds, per_mol)
        for bd in bonds:
            i, j = bd.GetBeginAtomIdx(), bd.GetEndAtomIdx()
            A = side_atoms(mol, i, j)
            B = set(range(mol.GetNumAtoms())) - A
            sides = []
            ok = True
            for keep, removed, me, other in ((A, B, i, j), (B, A, j, i)):
                try:
                    fs, fb, fn = pipeline_fragment(mol, tuple(sorted(removed)))
                except Exception:  # noqa: BLE001
                    ok = False
                    ctx.count("cut:fragment recipe raised")
                    break
                try:
                    rm, rr = reference_fragment(mol, bd.GetIdx(), me)
                except Exception:  # noqa: BLE001
                    rm, rr = None, None
                pidx = list(fb[0].values())[0] if len(fb) == 1 else None
                is_true, idx, moved = true_boundary(fs, pidx, rm, rr)
                sides.append({"smiles": fs, "pipeline_boundaries": len(fb), "true": is_true, "idx": idx, "moved": moved,
                              "sym": mol.GetAtomWithIdx(me).GetSymbol(), "xh": mol.GetAtomWithIdx(me).GetNumExplicitHs(), "nbr": other, "nbr_sym": mol.GetAtomWithIdx(other).GetSymbol()})
            if ok:
                out.append({"mol": s, "bond": [i, j], "sides": sides})
    return out


def spec_of(case, which):
    """compound-set spec of a cut case: which = (0, 1) both fragments, (0,) / (1,) a single one"""
    spec = []
    for k in which:
        sd = case["sides"][k]
        spec.append((sd["smiles"], case["mol"], [(sd["idx"], sd["sym"], sd["nbr"], sd["nbr_sym"])]))
    return spec


# ------------------------------------------------------------------------------------------------ independent statement
def heavy_counter(mol):
    return collections.Counter(a.GetAtomicNum() for a in mol.GetAtoms() if a.GetAtomicNum() > 1)


def json_tables():
    """the three JSON files read directly (independent of gen_merge and of the rule classes)"""
    d = os.path.join(chem.REPO, "synrbl/SynMCSImputer")
    out = {}
    for k in ("merge", "expand", "compound"):
        with open(os.path.join(d, k + "_rules.json")) as f:
            out[k] = json.load(f)
    return out


def stmt_generic(ctx, key, before, out, jt):
    """in all cases: valid molecule, no boundary, carbons conserved, heavy atoms = active fragments + rule compounds"""
    if out.get("hang"):
        ctx.violation(M_HANG, key, out["exc"], CALL_SITE)
        return False
    if "ok" not in out:
        return True
    r = out["ok"]
    wit = {"case": key, "result": r["smiles"], "rules": r["rules"]}
    m = Chem.MolFromSmiles(r["smiles"])
    ok = m is not None
    if ok:
        try:
            Chem.SanitizeMol(Chem.Mol(r["mol"]))
        except Exception:  # noqa: BLE001
            ok = False
    if not ok:
        ctx.violation(M_INVALID, wit, "result does not parse / sanitise", CALL_SITE)
        return False
    if r["boundaries"]:
        ctx.violation(M_OPEN, wit, "boundaries left: %s" % r["boundaries"], CALL_SITE)
        return False
    expand = {e["name"]: e for e in jt["expand"]}
    removal = {c["name"]: c for c in jt["compound"]
               if any(a.get("type") == "set_active" and not a.get("active") for a in (c["action"] if isinstance(c["action"], list) else [c["action"]]))}
    expect = collections.Counter()
    for b in before:
        expect += heavy_counter(b["mol"])
    for name in r["rules"]:
        if name in expand:
            expect += heavy_counter(Chem.MolFromSmiles(expand[name]["compound"]["smiles"]))
        if name in removal:
            smi = removal[name]["condition"]["compound"].get("smiles")
            expect -= heavy_counter(Chem.MolFromSmiles(smi))
    got = heavy_counter(r["mol"])
    carbons = sum(heavy_counter(b["mol"])[6] for b in before)  # removable catalysts (water) hold no carbon, see n_cat below
    if got[6] != carbons:
        ctx.violation(M_CARBON, wit, "carbons %d, fragments %d" % (got[6], carbons), CALL_SITE)
        return False
    if got != +expect:
        ctx.violation(M_ATOMS, wit, "heavy atoms %s, fragments+rules %s" % (dict(got), dict(+expect)), CALL_SITE)
        return False
    # the removed compounds really were there: as many water-like catalysts as reported removals
    n_removed = sum(1 for n in r["rules"] if n in removal)
    n_cat = sum(1 for b in before if b["nb"] == 0 and b["smiles"] == b["src"] and any(
        b["smiles"] == c["condition"]["compound"].get("smiles") for c in removal.values()))
    if n_removed != n_cat:
        ctx.violation(M_ATOMS, wit, "reported removals %d, removable catalysts %d" % (n_removed, n_cat), CALL_SITE)
        return False
    if r["cid"] >= 1000:
        # the returned compound is an expansion compound: MergeRule.apply swapped the roles, the open fragment's remaining
        # boundaries (and its membership in the set) are gone
        ctx.violation(M_SWAP, wit, "merge returned the compound created by an expand rule", "synrbl/SynMCSImputer/rules.py:MergeRule.apply")
        return False
    return True


def stmt_roundtrip(ctx, case, out, jt):
    """two fragments of a true cut: the molecule comes back unless a documented restriction (rule without bond) fired"""
    key = {"mol": case["mol"], "bond": case["bond"]}
    if "ok" not in out:
        ctx.count("declined:" + out["exc"].split(":")[0])
        if out["error"][0] in ("sanitizeFailed", "other"):
            ctx.violation(M_RAISES, key, out["exc"], CALL_SITE)
            return False
        return True
    r = out["ok"]
    rules = {x["name"]: x for x in jt["merge"]}
    fired = [rules[n] for n in r["rules"] if n in rules]
    if len(fired) != 1 or len(r["rules"]) != 1:
        ctx.violation(M_ROUNDTRIP, key, "reported rules %s" % r["rules"], CALL_SITE)
        return False
    rule = fired[0]
    same = nostereo(r["smiles"]) == nostereo(case["mol"])
    if rule.get("bond") is None:
        ctx.count("restriction:" + rule["name"])
        # documented = the two cut atoms are the symbols the rule lists, and the result is the two fragments side by side
        syms = [case["sides"][0]["sym"], case["sides"][1]["sym"]]
        # (the DOCUMENTED pairs, pinned here and in Properties/C09.lean — not whatever the data file lists today)
        c1, c2 = DOCUMENTED_RESTRICTIONS.get(rule["name"], ([], []))
        listed = (syms[0] in c1 and syms[1] in c2) or (syms[1] in c1 and syms[0] in c2)
        parts = sorted(nostereo(r["smiles"]).split("."))
        want = sorted(x for sd in case["sides"] for x in nostereo(sd["smiles"]).split("."))
        if not listed or parts != want:
            ctx.violation(M_RESTRICT, key, "rule %s, result %s" % (rule["name"], r["smiles"]), CALL_SITE)
            return False
        return True
    ctx.count("bonded:" + rule["name"])
    if not same:
        ctx.violation(M_ROUNDTRIP, key, "rule %s gave %s" % (rule["name"], r["smiles"]), CALL_SITE)
        return False
    return True


def recap(mol, idx):
    """remove terminal atom `idx`, cap its neighbour with a hydrogen (RDKit editing), stereo-free canonical SMILES"""
    rw = Chem.RWMol(mol)
    a = rw.GetAtomWithIdx(idx)
    nbr = a.GetNeighbors()[0]
    order = int(rw.GetBondBetweenAtoms(idx, nbr.GetIdx()).GetBondTypeAsDouble())
    if nbr.GetIsAromatic() and not (nbr.GetNoImplicit() or nbr.GetNumExplicitHs() > 0):
        # an aromatic atom must carry its hydrogen explicitly to stay kekulisable (`p` -> `[pH]`, `n` -> `[nH]`)
        nbr.SetNumExplicitHs(nbr.GetTotalNumHs() + order)
        nbr.SetNoImplicit(True)
    elif nbr.GetNoImplicit() or nbr.GetNumExplicitHs() > 0:
        nbr.SetNumExplicitHs(nbr.GetNumExplicitHs() + order)
    rw.RemoveAtom(idx)
    m = rw.GetMol()
    try:
        Chem.SanitizeMol(m)
    except Exception:  # noqa: BLE001
        return None
    return nostereo(Chem.MolToSmiles(m))


def stmt_expansion(ctx, case, k, out, jt):
    """single open fragment: unchanged if no expand rule is reported, else fragment + one atom of the rule's compound"""
    sd = case["sides"][k]
    key = {"mol": case["mol"], "bond": case["bond"], "fragment": sd["smiles"], "boundary": sd["idx"]}
    if "ok" not in out:
        ctx.count("declined:" + out["exc"].split(":")[0])
        if out["error"][0] == "other":
            ctx.violation(M_RAISES, key, out["exc"], CALL_SITE)
            return False
        return True
    r = out["ok"]
    expand = {e["name"]: e for e in jt["expand"]}
    used = [expand[n] for n in r["rules"] if n in expand]
    frag = nostereo(sd["smiles"])
    if not used:
        ctx.count("expansion:none")
        if r["rules"] or nostereo(r["smiles"]) != frag:
            ctx.violation(M_EXPANSION, key, "no expand rule reported but result %s rules %s" % (r["smiles"], r["rules"]), CALL_SITE)
            return False
        return True
    mrules = {x["name"]: x for x in jt["merge"]}
    if len(used) != 1 or len(r["rules"]) != 2 or r["rules"][0] != used[0]["name"] or r["rules"][1] not in mrules:
        ctx.violation(M_EXPANSION, key, "one boundary but rules %s" % r["rules"], CALL_SITE)
        return False
    ctx.count("expansion:" + used[0]["name"])
    comp = Chem.MolFromSmiles(used[0]["compound"]["smiles"])
    mr = mrules[r["rules"][1]]
    if mr.get("bond") is None:
        # the expansion compound was refused by a documented restriction (reported): fragment and compound side by side
        ctx.count("expansion refused by:" + mr["name"])
        csym = comp.GetAtomWithIdx(used[0]["compound"]["index"]).GetSymbol()
        c1, c2 = DOCUMENTED_RESTRICTIONS.get(mr["name"], ([], []))
        listed = (sd["sym"] in c1 and csym in c2) or (csym in c1 and sd["sym"] in c2)
        parts = sorted(nostereo(r["smiles"]).split("."))
        want = sorted(frag.split(".") + nostereo(used[0]["compound"]["smiles"]).split("."))
        if not listed or parts != want:
            ctx.violation(M_RESTRICT, key, "rule %s, result %s" % (mr["name"], r["smiles"]), CALL_SITE)
            return False
        return True
    z = comp.GetAtomWithIdx(used[0]["compound"]["index"]).GetAtomicNum()
    if comp.GetNumAtoms() != 1:
        return True  # generic accounting already done; the "one extra atom" form needs a one-atom compound
    rm = r["mol"]
    for a in rm.GetAtoms():
        if a.GetAtomicNum() == z and a.GetDegree() == 1:
            nb = a.GetNeighbors()[0]
            if nb.GetSymbol() == sd["sym"] and recap(rm, a.GetIdx()) == frag:
                return True
    ctx.violation(M_EXPANSION, key, "result %s is not %s plus one %s on a %s" % (r["smiles"], sd["smiles"], comp.GetAtomWithIdx(0).GetSymbol(), sd["sym"]), CALL_SITE)
    return False


# ------------------------------------------------------------------------------------------------ drivers of the check
def run_cuts(ctx, cases, tabs, jt, label, with_model=True):
    flows = []
    n_true = n_nottrue = 0
    for case in cases:
        s0, s1 = case["sides"]
        wellformed = s0["pipeline_boundaries"] == 1 and s1["pipeline_boundaries"] == 1
        true_cut = wellformed and s0["true"] and s1["true"]
        if s0["moved"] or s1["moved"]:
            ctx.count("cut:pipeline boundary on a symmetry-inequivalent atom (relocated)")
        if not wellformed:
            ctx.count("cut:pipeline fragment without exactly one boundary")
        elif not true_cut:
            ctx.count("cut:pipeline fragment is not the reference fragment")
        key = {"mol": case["mol"], "bond": case["bond"]}
        if true_cut:
            n_true += 1
            # two-fragment mode
            spec = spec_of(case, (0, 1))
            try:
                comps, before, out, log = run_real(spec)
            except Exception as e:  # noqa: BLE001  (the set itself could not be built)
                ctx.count("cut:set construction raised " + type(e).__name__)
                continue
            ctx.case(("two", case["mol"], tuple(case["bond"])), nontrivial="ok" in out)
            flows.append((dict(key, mode="two"), comps, out, log))
            if stmt_generic(ctx, dict(key, mode="two"), before, out, jt):
                stmt_roundtrip(ctx, case, out, jt)
            # single-fragment mode, both sides
            for k in (0, 1):
                spec = spec_of(case, (k,))
                comps, before, out, log = run_real(spec)
                ctx.case(("one", case["mol"], tuple(case["bond"]), k), nontrivial="ok" in out and len(out["ok"]["rules"]) > 0)
                flows.append((dict(key, mode="one", side=k), comps, out, log))
                if stmt_generic(ctx, dict(key, mode="one", side=k), before, out, jt):
                    stmt_expansion(ctx, case, k, out, jt)
                    # the same completion next to unmatched reactants (pass-through compounds) that happen to be the very
                    # molecules the completion produces: every compound of the set is part of the product
                    if "ok" in out and len(flows) % 7 == 0:
                        parts = out["ok"]["smiles"].split(".")
                        extra = [(p, p, []) for p in parts] + [(parts[0], parts[0], [])]
                        try:
                            comps2, before2, out2, log2 = run_real(spec + extra)
                        except Exception:  # noqa: BLE001
                            out2 = None
                        if out2 is not None:
                            ctx.count("one+identical spectators")
                            flows.append((dict(key, mode="one+spectators", side=k), comps2, out2, log2))
                            stmt_generic(ctx, dict(key, mode="one+spectators", side=k, spectators=[e[0] for e in extra]), before2, out2, jt)
        else:
            n_nottrue += 1
            # not a true cut: the round-trip claim does not apply, the generic claims do (whatever the fragments are)
            spec = []
            for sd in case["sides"]:
                if sd["pipeline_boundaries"] == 1 and sd["idx"] is not None:
                    spec.append((sd["smiles"], case["mol"], [(sd["idx"], sd["sym"], sd["nbr"], sd["nbr_sym"])]))
                else:
                    spec.append((sd["smiles"], case["mol"], []))
            try:
                comps, before, out, log = run_real(spec)
            except Exception as e:  # noqa: BLE001
                ctx.count("cut:set construction raised " + type(e).__name__)
                continue
            ctx.case(("odd", case["mol"], tuple(case["bond"])), nontrivial="ok" in out)
            flows.append((dict(key, mode="odd"), comps, out, log))
            stmt_generic(ctx, dict(key, mode="odd"), before, out, jt)
    ctx.count("cuts:true", n_true)
    ctx.count("cuts:other", n_nottrue)
    if with_model and flows:
        corr_flows(ctx, flows, tabs, label)
    return flows


def multi_cut_specs(ctx, smiles_list, per_mol=2, max_orders=6):
    """fragments with SEVERAL open attachment points: 2-3 acyclic single bonds of one molecule are cut and the small side of
    each is removed (FindMissingGraphs recipe); the core that is left is completed alone, with its boundaries listed in
    every order (the completion loop works them off front to back)"""
    rng = ctx.rng
    out = []
    for s in smiles_list:
        mol = Chem.MolFromSmiles(s)
        if mol is None or "." in s or mol.GetNumHeavyAtoms() > 40 or mol.GetNumAtoms() < 4:
            continue
        s = Chem.MolToSmiles(mol)
        mol = Chem.MolFromSmiles(s)
        bonds = [b for b in mol.GetBonds() if not b.IsInRing() and b.GetBondType() == Chem.BondType.SINGLE]
        if len(bonds) < 2:
            continue
        leaf = {}
        for bd in bonds:
            i, j = bd.GetBeginAtomIdx(), bd.GetEndAtomIdx()
            A = side_atoms(mol, i, j)
            B = set(range(mol.GetNumAtoms())) - A
            leaf[bd.GetIdx()] = (A, j) if len(A) <= len(B) else (B, i)
        done = 0
        for _ in range(8 * per_mol):
            if done >= per_mol:
                break
            k = rng.choice([2, 2, 3]) if len(bonds) >= 3 else 2
            pick = rng.sample(bonds, k)
            sides = [leaf[b.GetIdx()][0] for b in pick]
            if any(sides[a] & sides[b] for a in range(k) for b in range(a + 1, k)):
                continue
            removed = set().union(*sides)
            if any(leaf[b.GetIdx()][1] in removed for b in pick) or len(removed) >= mol.GetNumAtoms() - 1:
                continue
            try:
                fs, fb, fn = pipeline_fragment(mol, tuple(sorted(removed)))
            except Exception:  # noqa: BLE001
                ctx.count("multi:fragment recipe raised")
                continue
            if len(fb) != len(fn) or len(fb) < 2:
                ctx.count("multi:recipe lost a boundary")
                continue
            bl = []
            for bdict, ndict in zip(fb, fn):
                (bs, bi), = bdict.items()
                (ns, ni), = ndict.items()
                bl.append((bi, bs, ni, ns))
            orders = list(itertools.permutations(bl))
            rng.shuffle(orders)
            for order in orders[:max_orders]:
                out.append({"mol": s, "removed": sorted(removed), "spec": [(fs, s, list(order))]})
            done += 1
    return out


def run_multi(ctx, specs, tabs, jt, label="multi"):
    flows = []
    for c in specs:
        key = {"mol": c["mol"], "removed": c["removed"], "boundaries": [list(b) for b in c["spec"][0][2]], "mode": "multi"}
        try:
            comps, before, out, log = run_real(c["spec"])
        except Exception as e:  # noqa: BLE001
            ctx.count("multi:set construction raised " + type(e).__name__)
            continue
        ctx.case(("multi", c["mol"], tuple(c["removed"]), json.dumps(key["boundaries"])), nontrivial="ok" in out)
        ctx.count("multi:boundaries=%d" % len(c["spec"][0][2]))
        if "ok" in out:
            ctx.count("multi:rules reported=%d" % len(out["ok"]["rules"]))
        flows.append((key, comps, out, log))
        if stmt_generic(ctx, key, before, out, jt) and "ok" in out:
            # every open point is worked off on its own: the completion of the core reports exactly the rules that the same
            # core reports for each of its points alone (an atom carrying two open points is completed twice)
            fs, src, bl = c["spec"][0]
            want = []
            alone_ok = True
            for b in bl:
                try:
                    _, _, o1, _ = run_real([(fs, src, [b])])
                except Exception:  # noqa: BLE001
                    alone_ok = False
                    break
                if "ok" not in o1:
                    alone_ok = False
                    break
                want += list(o1["ok"]["rules"])
            if alone_ok:
                ctx.count("multi:compared with its points alone")
                if sorted(want) != sorted(out["ok"]["rules"]):
                    ctx.violation(M_OPEN, dict(key, result=out["ok"]["smiles"]),
                                  "rules reported for the core %s, for its %d points one at a time %s" % (out["ok"]["rules"], len(bl), want), CALL_SITE)
    if flows:
        corr_flows(ctx, flows, tabs, label)
    return flows


def run_cross(ctx, cases, tabs, jt, n):
    """fragments of two different molecules (what the pipeline merges in practice): generic claims + correspondence"""
    pool = [(c, k) for c in cases for k in (0, 1) if c["sides"][k]["pipeline_boundaries"] == 1 and c["sides"][k]["true"]]
    flows = []
    for _ in range(n):
        (ca, ka), (cb, kb) = ctx.rng.choice(pool), ctx.rng.choice(pool)
        spec = spec_of(ca, (ka,)) + spec_of(cb, (kb,))
        key = {"mode": "cross", "a": [ca["mol"], ca["bond"], ka], "b": [cb["mol"], cb["bond"], kb]}
        comps, before, out, log = run_real(spec)
        ctx.case(("cross", ca["mol"], tuple(ca["bond"]), ka, cb["mol"], tuple(cb["bond"]), kb), nontrivial="ok" in out)
        if "ok" in out:
            ctx.count("cross:" + "+".join(out["ok"]["rules"]))
        else:
            ctx.count("cross:declined " + out["exc"].split(":")[0])
        flows.append((key, comps, out, log))
        stmt_generic(ctx, key, before, out, jt)
    corr_flows(ctx, flows, tabs, "cross")


def run_handmade(ctx, tabs, jt):
    flows = []
    fired = collections.Counter()
    for name, spec in HANDMADE:
        try:
            comps, before, out, log = run_real(spec)
        except Exception as e:  # noqa: BLE001
            ctx.notes.append("hand-made set %r could not be built: %s" % (name, e))
            continue
        ctx.case(("handmade", name), nontrivial=True)
        if "ok" in out:
            for r in out["ok"]["rules"]:
                fired[r] += 1
        else:
            ctx.count("handmade:declined " + out["error"][0])
        flows.append(({"handmade": name}, comps, out, log))
        stmt_generic(ctx, {"handmade": name, "spec": spec}, before, out, jt)
    corr_flows(ctx, flows, tabs, "handmade")
    return fired


def frag_graph_pool(cases, limit=300):
    pool = {}
    for c in cases:
        for sd in c["sides"]:
            m = Chem.MolFromSmiles(sd["smiles"])
            if m is not None and m.GetNumAtoms() > 0:
                pool.setdefault(sd["smiles"], gen_merge.mol_graph(m))
            if len(pool) >= limit:
                return list(pool.items())
    return list(pool.items())


def corr_roundtrip_model(ctx, cases):
    """the graph-level theorem replayed on RDKit graphs of true cuts.  Sides of the *original* molecule = the fragment graphs
    with the cut atom's explicit-H count put back to what it is in the molecule; the cap is explicit iff the fragment atom has
    one explicit hydrogen more.  Checked: the model's `cutSide` reproduces the fragment RDKit parsed, and merge(cut) = glued
    molecule whenever `hOK` holds.  Cuts where the SMILES round trip re-normalised the hydrogens (e.g. `[C@@H]` that lost its
    chirality and its brackets) are outside `hOK`; they are counted, the connectivity theorem covers them."""
    ops, keys = [], []
    for c in cases:
        s0, s1 = c["sides"]
        if not (s0["true"] and s1["true"]):
            continue
        gs, es, okcap = [], [], True
        for sd in (s0, s1):
            g = gen_merge.mol_graph(Chem.MolFromSmiles(sd["smiles"]))
            y = g["atoms"][sd["idx"]][2]
            x = sd["xh"]
            if y == x + 1:
                es.append(True)
            elif y == x:
                es.append(False)
            else:
                okcap = False
            frag = json.loads(json.dumps(g))
            g["atoms"][sd["idx"]][2] = x
            gs.append((g, frag))
        if not okcap:
            ctx.count("graph-roundtrip:explicit hydrogens re-normalised by the fragment SMILES (outside hOK)")
            continue
        ops.append({"op": "mergeRoundTrip", "a": gs[0][0], "b": gs[1][0], "i": s0["idx"], "j": s1["idx"], "ea": es[0], "eb": es[1]})
        keys.append((c["mol"], c["bond"], gs[0][1], gs[1][1]))
    for k, a in zip(keys, ctx.driver(ops)):
        ctx.case(("graph-roundtrip", k[0], tuple(k[1])))
        if a["cutA"] != k[2] or a["cutB"] != k[3]:
            ctx.corr_break("Graph.cutSide vs the re-parsed pipeline fragment", [k[0], k[1]], [a["cutA"], a["cutB"]], [k[2], k[3]])
        elif not a["hyp"]:
            ctx.count("graph-roundtrip:implicit cap on an atom with explicit hydrogens (outside hOK)")
        elif not a["same"]:
            ctx.corr_break("C09_cut_merge_roundtrip replayed", [k[0], k[1]], a, "same")
    ctx.count("corr:graph-roundtrip", len(ops))


def search(ctx):
    """deeper hunt on the real code only (statement, no model): many more cuts of corpus molecules;
    bounded in time so that a change the statement cannot see ends with `no-failing-input-found`, not with a hang"""
    import time

    tabs = gen_merge.normalise()
    jt = json_tables()
    budget = 45 if ctx.tier == "quick" else 900
    t0 = time.time()
    mols = chem.unmapped_corpus_molecules()
    sample = ctx.rng.sample(mols, min(len(mols), 3000))
    for i in range(0, len(sample), 50):
        run_cuts(ctx, cut_cases(ctx, sample[i : i + 50]), tabs, jt, "search", with_model=False)
        if ctx.violations or time.time() - t0 > budget:
            return


def run(ctx):
    quick = ctx.tier == "quick"
    ctx.rule = (
        "cuts: every acyclic single bond (quick: at most 6 per molecule) of seeded corpus molecules (<= 40 heavy atoms, one "
        "component) and of ~120 constructed molecules (P=O, P-O, S-X, N-N, N-O, O-O, Mg/Zn/Si/B/Sn, ethers, esters, amides, "
        "thio analogues, bracket atoms with explicit H, charged atoms, aromatic N-R); fragments built with the FindMissingGraphs "
        "recipe, boundaries verified against RDKit's own cut by symmetry class; per cut: two-fragment merge + both "
        "single-fragment completions; plus fragments of two different molecules, plus ~45 hand-made compound sets reaching "
        "every merge / expand / compound rule and every error path (non-trivial = merge returned a compound; distinct by "
        "molecule, bond, mode)"
    )
    ctx.assumptions = [
        "RDKit: SMILES parsing, SanitizeMol, CombineMols/RWMol editing, canonical SMILES, FragmentOnBonds (reference cut); "
        "fgutils functional-group / pattern tests are oracle answers recorded from the real run",
        "oracle laws monitored on every recorded answer: SanitizeMol keeps the atom symbols position-wise; re-parsing a canonical "
        "SMILES (ReplaceAction) keeps the atom multiset; explicit hydrogens only on bracket atoms (hOK)",
        "stereo marks, isotopes and atom-map numbers are outside the model and outside the claim",
    ]
    ok_tables = ctx.gen_tables(needs=["gen_merge_rules"])
    built = ctx.build([MODULE])
    drv = ctx.build_driver()
    if built:
        ctx.audit(MODULE)
    if drv and ok_tables:
        install()
        tabs = gen_merge.normalise()
        jt = json_tables()
        corr_tables(ctx, tabs)
        fired = run_handmade(ctx, tabs, jt)
        constructed = cut_cases(ctx, CONSTRUCTED + MULTI)
        run_cuts(ctx, constructed, tabs, jt, "constructed")
        mols = chem.unmapped_corpus_molecules()
        sample = ctx.rng.sample(mols, 700 if quick else 4000)
        corpus_cases = []
        for i in range(0, len(sample), 150):
            part = cut_cases(ctx, sample[i : i + 150], per_mol=6 if quick else None)
            corpus_cases += part
            run_cuts(ctx, part, tabs, jt, "corpus")
        run_cross(ctx, corpus_cases + constructed, tabs, jt, 300 if quick else 5000)
        run_multi(ctx, multi_cut_specs(ctx, CONSTRUCTED + MULTI + sample[: 150 if quick else 1500], per_mol=2 if quick else 4), tabs, jt)
        corr_roundtrip_model(ctx, (corpus_cases + constructed)[: 400 if quick else 20000])
        corr_merge_two(ctx, ctx.rng, frag_graph_pool(constructed + corpus_cases), 400 if quick else 5000)
        # which rules were reached
        for k, v in ctx.dist.items():
            for pre in ("bonded:", "restriction:", "expansion:"):
                if k.startswith(pre):
                    fired[k[len(pre):]] += v
        all_rules = [r["name"] for k in ("merge", "expand", "compound") for r in tabs[k]]
        missing = [n for n in all_rules if fired[n] == 0]
        ctx.extra["rules_fired"] = {n: fired[n] for n in all_rules}
        if missing:
            ctx.notes.append("rules never reached by the generators: %s" % missing)
        for c in corpus_cases[:3]:
            ctx.sample({"mol": c["mol"], "bond": c["bond"], "fragments": [[sd["smiles"], sd["idx"], sd["sym"]] for sd in c["sides"]]})
    return ctx.finish(search)
