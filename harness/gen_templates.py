"""Translator for the reagent templates of `synrbl/SynChemImputer/`: reaction_template.json and compounds_template.json
-> lean/SynRBLModel/Generated/Templates.lean.

Both files are read with `json` (so Python's "last duplicate key wins" is what the model sees, as in `load_database`), key
order is kept.  For every compound a template names, RDKit's view is embedded: does it parse, and the atom list
(Z, symbol, formal charge) of the hydrogen-completed molecule — the data `RSMIDecomposer.decompose` counts — so that the
balance of a template is decidable inside Lean.  Unknown keys make the generator fail (a new field of the template
language shows up as a broken translator obligation, not as a silently ignored field).
"""
import json
import os

REPO = os.environ.get("SYNRBL_REPO", "/repo")
DIR = "synrbl/SynChemImputer"
TEMPLATE_KEYS = ["reactants", "products", "stoichiometric"]


def load(name):
    with open(os.path.join(REPO, DIR, name)) as f:
        return json.load(f)


def normalise():
    """the two files as plain data (also used by harness/pp_layer.py)"""
    ct = load("compounds_template.json")
    rt = load("reaction_template.json")
    for top in (ct, rt):
        bad = [k for k in top if k not in ("oxidation", "reduction")]
        if bad:
            raise KeyError("unknown top-level key(s) %s" % bad)

    def template(t, what):
        bad = [k for k in t if k not in TEMPLATE_KEYS]
        if bad or any(k not in t for k in TEMPLATE_KEYS):
            raise KeyError("%s: keys %s (expected %s)" % (what, list(t), TEMPLATE_KEYS))
        for k in ("reactants", "products"):
            if not all(isinstance(x, str) for x in t[k]):
                raise ValueError("%s.%s is not a list of strings" % (what, k))
        if not all(isinstance(x, int) and not isinstance(x, bool) and x >= 0 for x in t["stoichiometric"]):
            raise ValueError("%s.stoichiometric is not a list of naturals" % what)
        return {k: list(t[k]) for k in TEMPLATE_KEYS}

    ox = [(name, template(t, "oxidation/" + name)) for name, t in rt["oxidation"].items()]
    red_ion, red_neutral = [], []
    for name, tt in rt["reduction"].items():
        bad = [k for k in tt if k not in ("ion", "neutral")]
        if bad or "ion" not in tt or "neutral" not in tt:
            raise KeyError("reduction/%s: variants %s (expected ion, neutral)" % (name, list(tt)))
        red_ion.append((name, template(tt["ion"], "reduction/%s/ion" % name)))
        red_neutral.append((name, template(tt["neutral"], "reduction/%s/neutral" % name)))
    for kind in ("oxidation", "reduction"):
        for pat, names in ct[kind].items():
            if not isinstance(names, list) or not all(isinstance(n, str) for n in names):
                raise ValueError("compounds_template[%s][%s] is not a list of names" % (kind, pat))
    compounds = []
    for _, t in ox + red_ion + red_neutral:
        for s in t["reactants"] + t["products"]:
            if s not in compounds:
                compounds.append(s)
    return {
        "ox_compounds": [(k, list(v)) for k, v in ct["oxidation"].items()],
        "red_compounds": [(k, list(v)) for k, v in ct["reduction"].items()],
        "ox": ox,
        "red_ion": red_ion,
        "red_neutral": red_neutral,
        "compounds": compounds,
    }


def compound_atoms(smiles):
    from rdkit import Chem

    m = Chem.MolFromSmiles(smiles)
    if m is None:
        return False, []
    mh = Chem.AddHs(m)
    return True, [(a.GetAtomicNum(), a.GetSymbol(), a.GetFormalCharge()) for a in mh.GetAtoms()]


def gen_templates(info):
    from gen_tables import HEADER, lean_int, lean_str, write_if_changed

    t = normalise()
    sl = lambda xs: "[" + ", ".join(lean_str(x) for x in xs) + "]"  # noqa: E731

    def tmpl(nt):
        name, x = nt
        return "(%s, { reactants := %s, products := %s, stoichiometric := [%s] })" % (
            lean_str(name), sl(x["reactants"]), sl(x["products"]), ", ".join(str(n) for n in x["stoichiometric"]))

    def cmap(kvs):
        return "[\n  " + ",\n  ".join("(%s, %s)" % (lean_str(k), sl(v)) for k, v in kvs) + "]"

    comps = []
    for s in t["compounds"]:
        ok, atoms = compound_atoms(s)
        at = "[" + ", ".join("⟨%d, %s, %s⟩" % (z, lean_str(sy), lean_int(c)) for z, sy, c in atoms) + "]"
        comps.append("{ smiles := %s, parses := %s, atoms := %s }" % (lean_str(s), "true" if ok else "false", at))
    tl = lambda xs: "[\n  " + ",\n  ".join(tmpl(x) for x in xs) + "]"  # noqa: E731
    text = (
        HEADER % (DIR + "/reaction_template.json, compounds_template.json (+ RDKit atom lists of every template compound)")
        + "import SynRBLModel.Model.PostProcess\nnamespace SynRBL.Generated\nopen SynRBL.PP\n\n"
        + "/-- `compounds_template[\"oxidation\"]` in file order -/\n"
        + "def oxCompounds : List (String × List String) := %s\n\n" % cmap(t["ox_compounds"])
        + "/-- `compounds_template[\"reduction\"]` in file order -/\n"
        + "def redCompounds : List (String × List String) := %s\n\n" % cmap(t["red_compounds"])
        + "/-- `reaction_templates[\"oxidation\"]` -/\n"
        + "def oxTemplates : List (String × Template) := %s\n\n" % tl(t["ox"])
        + "/-- `reaction_templates[\"reduction\"][name][\"ion\"]` (what the pipeline uses: `neutralize=False`) -/\n"
        + "def redTemplates : List (String × Template) := %s\n\n" % tl(t["red_ion"])
        + "/-- `reaction_templates[\"reduction\"][name][\"neutral\"]` -/\n"
        + "def redTemplatesNeutral : List (String × Template) := %s\n\n" % tl(t["red_neutral"])
        + "/-- RDKit: `MolFromSmiles` succeeds, atoms of `AddHs(mol)` as (Z, symbol, formal charge) -/\n"
        + "def templateCompounds : List Compound := [\n  %s]\n\n" % ",\n  ".join(comps)
        + "def templates : Tables :=\n"
        + "  ⟨oxCompounds, redCompounds, oxTemplates, redTemplates, redTemplatesNeutral, templateCompounds⟩\n\n"
        + "end SynRBL.Generated\n"
    )
    info["templates"] = {
        "oxidation": [n for n, _ in t["ox"]],
        "reduction": [n for n, _ in t["red_ion"]],
        "compounds": len(t["compounds"]),
        "ox_patterns": [k for k, _ in t["ox_compounds"]],
        "red_patterns": [k for k, _ in t["red_compounds"]],
    }
    return write_if_changed("Templates.lean", text)


if __name__ == "__main__":
    i = {}
    print(gen_templates(i), json.dumps(i, indent=1))
