"""Translator for the merge / expand / compound rule tables of `synrbl/SynMCSImputer/`:
merge_rules.json, expand_rules.json, compound_rules.json -> lean/SynRBLModel/Generated/MergeRules.lean.

The JSON files are read directly (rule order, names, conditions, actions, bond) and normalised the way the constructors
in `rules.py` normalise them (`Property.__init__`: None / bool-int / str / list[str] with `!` negation; action given as a
dict or a list of dicts).  Keys the model does not know make the generator fail (the constructors' `_check_config` would
raise for them as well), so an extension of the rule language shows up as a broken translator obligation, not as a
silently ignored field.  For every expansion compound RDKit's atom / bond list of its SMILES is embedded.
"""
import json
import os

REPO = os.environ.get("SYNRBL_REPO", "/repo")
DIR = "synrbl/SynMCSImputer"

BCOND_KEYS = ["atom", "neighbor_atom", "functional_group", "pattern", "src_pattern"]
MERGE_KEYS = ["name", "condition1", "condition2", "action1", "action2", "bond"]
EXPAND_KEYS = ["name", "condition", "compound"]
COMPOUND_KEYS = ["name", "condition", "action"]
CCOND_KEYS = ["nr_boundaries", "is_catalyst", "smiles", "functional_group"]
SCOND_KEYS = ["nr_boundaries", "nr_compounds"]


def load(name):
    with open(os.path.join(REPO, DIR, name)) as f:
        return json.load(f)


def check_keys(d, allowed, what):
    bad = [k for k in d if k not in allowed]
    if bad:
        raise KeyError("%s: unknown key(s) %s" % (what, bad))


def prop(config):
    """Property.__init__ -> (pos, neg) with the raw Python values"""
    pos, neg = [], []
    if config is not None:
        if isinstance(config, (bool, int)):
            pos.append(config)
        else:
            if not isinstance(config, list):
                config = [config]
            for item in config:
                if not isinstance(item, str):
                    raise ValueError("Property configuration must be of type str or list[str].")
                if len(item) > 0 and item[0] == "!":
                    neg.append(item[1:])
                else:
                    pos.append(item)
    return pos, neg


def mol_graph(mol):
    """the data of Model/Graph.lean: atoms (symbol, charge, explicit Hs, NoImplicit, aromatic), bonds (begin, end, int(type))"""
    return {
        "atoms": [
            [a.GetSymbol(), int(a.GetFormalCharge()), int(a.GetNumExplicitHs()), bool(a.GetNoImplicit()), bool(a.GetIsAromatic())]
            for a in mol.GetAtoms()
        ],
        "bonds": [[b.GetBeginAtomIdx(), b.GetEndAtomIdx(), int(b.GetBondType())] for b in mol.GetBonds()],
    }


def normalise():
    """the three tables as plain data (also used by the check for the round trip through the driver)"""
    from rdkit import Chem

    def bcond(d, what):
        check_keys(d, BCOND_KEYS, what)
        return {k: prop(d.get(k)) for k in BCOND_KEYS}

    def actions(a, what):
        if not isinstance(a, list):
            a = [a]
        out = []
        for x in a:
            t = x["type"]
            if t == "change_bond":
                check_keys(x, ["type", "pattern", "bond"], what)
                if x.get("pattern") is None or x.get("bond") is None:
                    raise ValueError("%s: change_bond needs pattern and bond" % what)
                pm = Chem.MolFromSmiles(x["pattern"])
                if pm is None or pm.GetNumAtoms() != 2 or pm.GetNumBonds() != 1:
                    raise ValueError("%s: change_bond pattern must have 2 atoms and 1 bond" % what)
                nr = {"single": 1, "double": 2}.get(x["bond"])
                if nr is None:
                    raise NotImplementedError("%s: bond type %r" % (what, x["bond"]))
                out.append(("change_bond", x["pattern"], nr))
            elif t == "change_charge":
                check_keys(x, ["type", "charge", "relative"], what)
                out.append(("change_charge", int(x["charge"])))
            elif t == "replace":
                check_keys(x, ["type", "pattern", "value"], what)
                out.append(("replace", str(x.get("pattern")), str(x.get("value"))))
            else:
                raise NotImplementedError("%s: no action named %r" % (what, t))
        return out

    merge = []
    for r in load("merge_rules.json"):
        check_keys(r, MERGE_KEYS, "merge rule %r" % r.get("name"))
        bond = r.get("bond")
        if bond is not None and not isinstance(bond, str):
            raise ValueError("merge rule %r: bond must be a string" % r.get("name"))
        merge.append(
            {
                "name": r.get("name", "unnamed"),
                "cond1": bcond(r.get("condition1", {}), "condition1"),
                "cond2": bcond(r.get("condition2", {}), "condition2"),
                "action1": actions(r.get("action1", []), "action1"),
                "action2": actions(r.get("action2", []), "action2"),
                "bond": bond,
            }
        )
    expand = []
    for r in load("expand_rules.json"):
        check_keys(r, EXPAND_KEYS, "expand rule %r" % r.get("name"))
        comp = r["compound"]
        mol = Chem.MolFromSmiles(comp["smiles"])
        if mol is None:
            raise ValueError("expand rule %r: compound %r does not parse" % (r.get("name"), comp["smiles"]))
        expand.append(
            {
                "name": r.get("name", "unnamed"),
                "cond": bcond(r.get("condition", {}), "condition"),
                "smiles": comp["smiles"],
                "index": int(comp["index"]),
                "g": mol_graph(mol),
            }
        )
    compound = []
    for r in load("compound_rules.json"):
        check_keys(r, COMPOUND_KEYS, "compound rule %r" % r.get("name"))
        cond = r.get("condition", {})
        check_keys(cond, ["compound", "set"], "compound rule condition")
        cc, sc = cond.get("compound", {}), cond.get("set", {})
        check_keys(cc, CCOND_KEYS, "compound condition")
        check_keys(sc, SCOND_KEYS, "set condition")
        acts = r.get("action", [])
        if not isinstance(acts, list):
            acts = [acts]
        alist = []
        for x in acts:
            t = x["type"]
            if t == "add_boundary":
                check_keys(x, ["type", "functional_group", "pattern", "index"], "add_boundary")
                pm = Chem.MolFromSmiles(x["pattern"])
                if pm is None or pm.GetNumAtoms() <= int(x["index"]):
                    raise ValueError("add_boundary: index out of range")
                alist.append(("add_boundary", x.get("functional_group"), x["pattern"], int(x["index"])))
            elif t == "set_active":
                check_keys(x, ["type", "active"], "set_active")
                alist.append(("set_active", bool(x.get("active"))))
            else:
                raise NotImplementedError("no compound action named %r" % t)

        def cnt(c):
            p, n = prop(c)
            return [int(v) for v in p], [int(v) for v in n]

        def boolean(c):
            p, n = prop(c)
            return [bool(v) for v in p], [bool(v) for v in n]

        compound.append(
            {
                "name": r.get("name", "unnamed"),
                "nr_boundaries": cnt(cc.get("nr_boundaries")),
                "is_catalyst": boolean(cc.get("is_catalyst")),
                "smiles": prop(cc.get("smiles")),
                "fg": prop(cc.get("functional_group")),
                "set_nr_boundaries": cnt(sc.get("nr_boundaries")),
                "set_nr_compounds": cnt(sc.get("nr_compounds")),
                "actions": alist,
            }
        )
    return {"merge": merge, "expand": expand, "compound": compound}


# ---------------------------------------------------------------------------------------------- Lean literals
def _L():
    from gen_tables import lean_int, lean_str

    return lean_str, lean_int


def lean_prop(p, f):
    pos, neg = p
    if not pos and not neg:
        return "{}"
    return "{ pos := [%s], neg := [%s] }" % (", ".join(f(v) for v in pos), ", ".join(f(v) for v in neg))


def lean_bcond(c):
    lean_str, _ = _L()
    names = {"atom": "atom", "neighbor_atom": "neighbor", "functional_group": "fg", "pattern": "pattern", "src_pattern": "srcPattern"}
    parts = ["%s := %s" % (names[k], lean_prop(c[k], lean_str)) for k in BCOND_KEYS if c[k][0] or c[k][1]]
    return "{ " + ", ".join(parts) + " }" if parts else "{}"


def lean_action(a):
    lean_str, lean_int = _L()
    if a[0] == "change_bond":
        return ".changeBond %s %d" % (lean_str(a[1]), a[2])
    if a[0] == "change_charge":
        return ".changeCharge %s" % lean_int(a[1])
    return ".replace %s %s" % (lean_str(a[1]), lean_str(a[2]))


def lean_caction(a):
    lean_str, _ = _L()
    if a[0] == "add_boundary":
        return ".addBoundary %s %s %d" % ("none" if a[1] is None else "(some %s)" % lean_str(a[1]), lean_str(a[2]), a[3])
    return ".setActive %s" % ("true" if a[1] else "false")


def lean_graph(g):
    lean_str, lean_int = _L()
    atoms = ", ".join(
        "⟨%s, %s, %d, %s, %s⟩" % (lean_str(s), lean_int(q), h, "true" if ni else "false", "true" if ar else "false")
        for s, q, h, ni, ar in g["atoms"]
    )
    bonds = ", ".join("⟨%d, %d, %d⟩" % tuple(b) for b in g["bonds"])
    return "⟨[%s], [%s]⟩" % (atoms, bonds)


def gen_merge_rules(info):
    from gen_tables import HEADER, lean_str, write_if_changed

    t = normalise()
    lb = lambda v: "true" if v else "false"  # noqa: E731
    mr = []
    for r in t["merge"]:
        mr.append(
            "{ name := %s,\n    cond1 := %s,\n    cond2 := %s,\n    action1 := [%s], action2 := [%s],\n    bond := %s }"
            % (
                lean_str(r["name"]),
                lean_bcond(r["cond1"]),
                lean_bcond(r["cond2"]),
                ", ".join(lean_action(a) for a in r["action1"]),
                ", ".join(lean_action(a) for a in r["action2"]),
                "none" if r["bond"] is None else "some %s" % lean_str(r["bond"]),
            )
        )
    er = []
    for r in t["expand"]:
        er.append(
            "{ name := %s,\n    cond := %s,\n    smiles := %s, index := %d, g := %s }"
            % (lean_str(r["name"]), lean_bcond(r["cond"]), lean_str(r["smiles"]), r["index"], lean_graph(r["g"]))
        )
    cr = []
    for r in t["compound"]:
        fields = []
        for key, lean_key, f in (
            ("nr_boundaries", "nrBoundaries", str),
            ("is_catalyst", "isCatalyst", lb),
            ("smiles", "smiles", lean_str),
            ("fg", "fg", lean_str),
            ("set_nr_boundaries", "setNrBoundaries", str),
            ("set_nr_compounds", "setNrCompounds", str),
        ):
            if r[key][0] or r[key][1]:
                fields.append("%s := %s" % (lean_key, lean_prop(r[key], f)))
        cr.append(
            "{ name := %s,\n    cond := { %s },\n    actions := [%s] }"
            % (lean_str(r["name"]), ", ".join(fields), ", ".join(lean_caction(a) for a in r["actions"]))
        )
    text = (
        HEADER % (DIR + "/merge_rules.json, expand_rules.json, compound_rules.json (+ RDKit atom lists of the expansion compounds)")
        + "import SynRBLModel.Model.Merge\nnamespace SynRBL.Generated\nopen SynRBL.Mol\n\n"
        + "/-- merge_rules.json in file order (first applicable rule wins) -/\n"
        + "def mergeRules : List MergeRule := [\n  %s]\n\n" % ",\n  ".join(mr)
        + "/-- expand_rules.json in file order, with RDKit's graph of `compound.smiles` -/\n"
        + "def expandRules : List ExpandRule := [\n  %s]\n\n" % ",\n  ".join(er)
        + "/-- compound_rules.json in file order -/\n"
        + "def compoundRules : List CompoundRule := [\n  %s]\n\n" % ",\n  ".join(cr)
        + "def mergeTables : Tables := ⟨mergeRules, expandRules, compoundRules⟩\n\n"
        + "end SynRBL.Generated\n"
    )
    info["merge_rules"] = {
        "merge": [r["name"] for r in t["merge"]],
        "expand": [r["name"] for r in t["expand"]],
        "compound": [r["name"] for r in t["compound"]],
    }
    return write_if_changed("MergeRules.lean", text)


if __name__ == "__main__":
    i = {}
    print(gen_merge_rules(i), json.dumps(i))
